(* Refinement proofs, part 1: new, flush, reserve, despawn, take+drop, clear, read accessors *)
From Coq Require Import List NArith ZArith Bool Lia ZifyBool ZifyNat ZifyN.
From HecsV Require Import Base.ListN Base.ListNFacts Model.EntityBits Model.Types Model.Entities Model.World
  Proofs.WorldSpec Proofs.ListNMore Proofs.WorldLemmas.
Import ListNotations.
Open Scope N_scope.



(* ------------------------------------------------------------------------------------------ *)
Theorem world_new_inv_proof : world_new_inv_stmt.
Proof.
  intros u. split; [|split].
  - constructor; unfold world_new; cbn [w_ents w_archs w_index w_b2a w_ins w_rem ents_empty meta pending cursor elen].
    + constructor.
    + intros id [].
    + cbn [lenN]. lia.
    + intros m [].
    + intros id m H. discriminate.
    + intros ai a i r Ha Hr. cbn [nthN] in Ha. destruct (N.eqb ai 0); [|discriminate].
      injection Ha as <-. discriminate.
    + reflexivity.
    + exists []. reflexivity.
    + intros a [<-|[]]. reflexivity.
    + intros a r [<-|[]] [].
    + intros i a Ha. cbn [nthN] in Ha. destruct (N.eqb_spec i 0) as [->|]; [|discriminate].
      injection Ha as <-. reflexivity.
    + intros k i Hk. cbn [assoc_list] in Hk. destruct k; cbn [list_eqb] in Hk; [|discriminate].
      injection Hk as <-. eexists. split; reflexivity.
    + intros k a H. discriminate.
    + intros src k t H. discriminate.
    + intros src k i H. discriminate.
  - reflexivity.
  - intros h. apply abs_None_get. apply get_ents_empty.
Qed.

(* ------------------------------------------------------------------------------------------ *)
Theorem flush_refines_proof : flush_refines_stmt.
Proof.
  intros u w w' I F H. destruct (w_flush_spec _ _ _ I F H) as (P & Hf & _ & Habs & _).
  split; [apply WInvP_WInv; exact P|]. split; [exact Hf|]. split; [exact Habs|].
  intros h. apply alive_get_mut_flushed. exact Hf.
Qed.

(* ------------------------------------------------------------------------------------------ *)
Lemma w_despawn_unfold w h w' r :
  w_despawn w h = Done (w', r) ->
  exists w0, w_flush w = Done w0 /\
    ((free (w_ents w0) h = Done None /\ w' = w0 /\ r = WNoSuchEntity) \/
     (exists e l r1, free (w_ents w0) h = Done (Some (e, l)) /\
        detach_row (with_ents w0 e) l = Done (w', r1) /\ r = WOk (r_vals r1))).
Proof.
  unfold w_despawn. destruct (w_flush w) as [w0|c]; [|discriminate]. cbn [bind].
  destruct (free (w_ents w0) h) as [[[e l]|]|c] eqn:Hfr; cbn [bind]; [| |discriminate].
  - destruct (detach_row (with_ents w0 e) l) as [[w1 r1]|c] eqn:Hd; cbn [bind]; [|discriminate].
    intros [= <- <-]. exists w0. split; [reflexivity|]. right. exists e, l, r1. auto.
  - intros [= <- <-]. exists w0. split; [reflexivity|]. left. auto.
Qed.

Theorem despawn_refines_proof : despawn_refines_stmt.
Proof.
  intros u w h w' r I F H.
  apply w_despawn_unfold in H as (w0 & Hfl & [(Hfr & -> & ->)|(e & l & r1 & Hfr & Hd & ->)]).
  - destruct (w_flush_spec _ _ _ I F Hfl) as (P & Hf & _ & Habs & _).
    split; [apply WInvP_WInv; exact P|]. split; [exact Hf|]. split; [|exact Habs].
    apply free_None_spec in Hfr as (_ & Hg). rewrite <- Habs, (abs_flushed _ _ Hf), Hg. reflexivity.
  - destruct (w_flush_spec _ _ _ I F Hfl) as (P & Hf & _ & Habs & _).
    destruct (free_spec _ _ _ _ Hfr) as (m & _ & Hm & Hgen & Hs & El & _ & _).
    subst l. destruct (WInvP_open _ _ _ _ P Hm Hs) as (Po & r0 & Hr0 & Hid).
    pose proof (free_inv _ _ _ _ _ _ _ Po Hfr) as P1.
    pose proof (detach_row_inv _ _ _ _ _ _ P1 Hd) as P2.
    pose proof (detach_row_row _ _ _ _ _ _ P1 Hd) as Hr1. rewrite row_at_with_ents, Hr0 in Hr1. injection Hr1 as <-.
    destruct (detach_row_ents _ _ _ _ _ _ P1 Hd) as (_ & _ & _ & _ & Hnf & _).
    split; [apply WInvP_WInv; exact P2|]. split; [|split; [|split]].
    + unfold flushed. rewrite Hnf. cbn [with_ents w_ents]. apply (free_flushed _ _ _ _ Hfr).
    + rewrite <- Habs, (abs_located _ _ _ Hm Hs), Hgen, N.eqb_refl, Hr0. reflexivity.
    + rewrite (detach_row_abs _ _ _ _ _ _ h P1 Hd) by (intros []).
      apply (free_abs_same_id _ _ _ _ _ Hfr). reflexivity.
    + intros h' Hne. rewrite (detach_row_abs _ _ _ _ _ _ h' P1 Hd) by (intros []). rewrite <- Habs.
      destruct (N.eq_dec (e_id h') (e_id h)) as [Eid|Eid].
      * rewrite (free_abs_same_id _ _ _ _ _ Hfr Eid). symmetry.
        rewrite <- Eid in Hm. apply (abs_gen_mismatch _ _ _ Hm).
        intros Eg. apply Hne. apply entity_ext; congruence.
      * apply (free_abs_other_id _ _ _ _ _ Hfr Eid).
Qed.

Theorem despawn_never_panics_proof : despawn_never_panics_stmt.
Proof.
  intros u w h I F. destruct (w_flush_ok _ _ I) as (w0 & Hfl).
  destruct (w_flush_spec _ _ _ I F Hfl) as (P & Hf & _).
  unfold w_despawn. rewrite Hfl. cbn [bind].
  destruct (get_mut (w_ents w0) h) as [l|] eqn:Hg.
  - pose proof Hg as Hg'. apply get_mut_Some_inv in Hg' as (m & Hm & Hgen & Hs & ->).
    destruct (WInvP_open _ _ _ _ P Hm Hs) as (_ & r0 & Hr0 & _).
    assert (Hel : elen (w_ents w0) <> 0).
    { pose proof (wp_len _ _ _ _ P) as Hl. cbn [dang_n lenN] in Hl.
      apply row_at_Some in Hr0 as (a & Ha & Hr0). apply nthN_Some_lt in Hr0.
      pose proof (sumf_ge_nth (fun a => lenN (a_rows a)) _ _ _ Ha) as Hge. cbn beta in Hge.
      unfold rows_total in Hl. lia. }
    destruct (free_ok_Some _ _ _ Hf Hg Hel) as (e' & ->). cbn [bind].
    destruct (detach_row_ok (with_ents w0 e') (m_loc m) r0) as (w1 & ->); [rewrite row_at_with_ents; exact Hr0|].
    cbn [bind]. eauto.
  - rewrite (free_ok_None _ _ Hf Hg). cbn [bind]. eauto.
Qed.

(* ------------------------------------------------------------------------------------------ *)
Lemma w_take_drop_unfold w h w' r :
  w_take_drop w h = Done (w', r) ->
  exists w0, w_flush w = Done w0 /\
    ((get (w_ents w0) h = None /\ w' = w0 /\ r = WNoSuchEntity) \/
     (exists l w1 r1 e l', get (w_ents w0) h = Some l /\ detach_row w0 l = Done (w1, r1) /\
        free (w_ents w1) h = Done (Some (e, l')) /\ w' = with_ents w1 e /\ r = WOk (r_vals r1))).
Proof.
  unfold w_take_drop. destruct (w_flush w) as [w0|c]; [|discriminate]. cbn [bind].
  destruct (get (w_ents w0) h) as [l|] eqn:Hg.
  - destruct (detach_row w0 l) as [[w1 r1]|c] eqn:Hd; cbn [bind]; [|discriminate].
    destruct (free (w_ents w1) h) as [[[e l']|]|c] eqn:Hfr; cbn [bind]; try discriminate.
    intros [= <- <-]. exists w0. split; [reflexivity|]. right. exists l, w1, r1, e, l'. auto 10.
  - intros [= <- <-]. exists w0. split; [reflexivity|]. left. auto.
Qed.

Theorem take_drop_refines_proof : take_drop_refines_stmt.
Proof.
  intros u w h w' r I F H.
  apply w_take_drop_unfold in H as (w0 & Hfl & [(Hg & -> & ->)|(l & w1 & r1 & e & l' & Hg & Hd & Hfr & -> & ->)]).
  - destruct (w_flush_spec _ _ _ I F Hfl) as (P & Hf & _ & Habs & _).
    split; [apply WInvP_WInv; exact P|]. split; [exact Hf|]. split; [|exact Habs].
    rewrite <- Habs. apply abs_None_get. exact Hg.
  - destruct (w_flush_spec _ _ _ I F Hfl) as (P & Hf & _ & Habs & _).
    rewrite (get_eq_get_mut_flushed _ _ Hf) in Hg.
    apply get_mut_Some_inv in Hg as (m & Hm & Hgen & Hs & ->).
    destruct (WInvP_open _ _ _ _ P Hm Hs) as (Po & r0 & Hr0 & Hid).
    pose proof (detach_row_inv _ _ _ _ _ _ Po Hd) as P1.
    pose proof (detach_row_row _ _ _ _ _ _ Po Hd) as Hr1. rewrite Hr0 in Hr1. injection Hr1 as <-.
    pose proof (free_inv _ _ _ _ _ _ _ P1 Hfr) as P2.
    split; [apply WInvP_WInv; exact P2|]. split; [|split; [|split]].
    + apply (free_flushed _ _ _ _ Hfr).
    + rewrite <- Habs, (abs_located _ _ _ Hm Hs), Hgen, N.eqb_refl, Hr0. reflexivity.
    + apply (free_abs_same_id _ _ _ _ _ Hfr). reflexivity.
    + intros h' Hne. rewrite <- Habs. destruct (N.eq_dec (e_id h') (e_id h)) as [Eid|Eid].
      * rewrite (free_abs_same_id _ _ _ _ _ Hfr Eid). symmetry.
        rewrite <- Eid in Hm. apply (abs_gen_mismatch _ _ _ Hm).
        intros Eg. apply Hne. apply entity_ext; congruence.
      * rewrite (free_abs_other_id _ _ _ _ _ Hfr Eid).
        apply (detach_row_abs _ _ _ _ _ _ h' Po Hd). intros [E|[]]. congruence.
Qed.

(* ------------------------------------------------------------------------------------------ *)
(* reserve_entity only moves the cursor *)
Lemma WInv_cursor u w c :
  WInv u w -> (c <= Z.of_N (lenN (pending (w_ents w))))%Z ->
  WInv u (with_ents w {| meta := meta (w_ents w); pending := pending (w_ents w); cursor := c; elen := elen (w_ents w) |}).
Proof.
  intros I Hc. destruct I. constructor; cbn [with_ents w_ents w_archs w_index w_b2a w_ins w_rem meta pending cursor elen]; assumption.
Qed.

Lemma abs_same_archs w e h :
  get e h = get (w_ents w) h -> abs (with_ents w e) h = abs w h.
Proof. intros H. apply abs_frame; [exact H|intros; reflexivity]. Qed.

Theorem reserve_refines_proof : reserve_refines_stmt.
Proof.
  intros u w e h I F H w' F'. subst w'. clear F'. unfold reserve_entity in H.
  set (e0 := w_ents w) in *. set (n := cursor e0) in *.
  pose proof (wi_cursor _ _ I) as Hcur. fold e0 in Hcur. fold n in Hcur.
  pose proof (wi_nodup _ _ I) as Hnd. fold e0 in Hnd.
  destruct (Z.ltb_spec 0 n) as [Hn|Hn].
  - (* a recycled id *)
    destruct (nthN (pending e0) (Z.to_N (n - 1))) as [id|] eqn:Eid; [|discriminate].
    injection H as <- <-.
    split; [apply (WInv_cursor _ _ _ I); fold e0; lia|].
    pose proof (nthN_In _ _ _ Eid) as Hin.
    pose proof (wi_pending_lt _ _ I _ Hin) as Hlt. fold e0 in Hlt.
    destruct (nthN_lt_Some _ _ Hlt) as (m & Hm).
    assert (Hloc : m_loc m = EMPTY_LOC).
    { destruct (wi_loc _ _ I _ _ Hm) as [(_ & E)|(Hc & _)]; [exact E|contradiction]. }
    assert (Hgen : gen_of e0 id = m_gen m) by (unfold gen_of; rewrite Hm; reflexivity).
    assert (Hr0 : reserved_part e0 = dropN (Z.to_N n) (pending e0)).
    { unfold reserved_part. fold n. f_equal. lia. }
    assert (Hr1 : forall el, reserved_part {| meta := meta e0; pending := pending e0; cursor := (n - 1)%Z; elen := el |}
                  = id :: dropN (Z.to_N n) (pending e0)).
    { intros el. unfold reserved_part. cbn [cursor pending].
      replace (Z.to_N (Z.max (n - 1) 0)) with (Z.to_N (n - 1)) by lia.
      rewrite (dropN_nth_cons _ _ _ Eid). f_equal. f_equal. lia. }
    assert (Hnotin : ~ In id (dropN (Z.to_N n) (pending e0))).
    { intros Hi. apply In_nthN in Hi as (j & Hj). rewrite nthN_dropN in Hj.
      pose proof (NoDup_nthN _ _ _ _ Hnd Eid Hj). lia. }
    split; [|split].
    + apply abs_None_get. fold e0. unfold get. cbn [e_id e_gen]. rewrite Hm, Hgen, N.eqb_refl. cbn [negb].
      rewrite Hloc. cbn [EMPTY_LOC l_idx]. rewrite N.eqb_refl, Hr0.
      destruct (memN id (dropN (Z.to_N n) (pending e0))) eqn:Em; [|reflexivity].
      apply memN_In in Em. contradiction.
    + rewrite abs_unfold. cbn [with_ents w_ents]. unfold get. cbn [meta e_id e_gen]. rewrite Hm, Hgen, N.eqb_refl. cbn [negb].
      rewrite Hloc. cbn [EMPTY_LOC l_idx]. rewrite N.eqb_refl, Hr1. cbn [memN]. rewrite N.eqb_refl.
      cbn [l_idx]. rewrite N.eqb_refl. reflexivity.
    + intros h' Hne. apply abs_same_archs. fold e0. unfold get. cbn [meta cursor]. rewrite Hr0, Hr1. fold n.
      destruct (nthN (meta e0) (e_id h')) as [m'|] eqn:Em'.
      * destruct (N.eqb_spec (m_gen m') (e_gen h')) as [Eg|Eg]; cbn [negb]; [|reflexivity].
        destruct (N.eqb (l_idx (m_loc m')) SENT); [|reflexivity]. cbn [memN].
        destruct (N.eqb_spec (e_id h') id) as [Ei|Ei]; [|reflexivity].
        exfalso. apply Hne. rewrite Ei, Hm in Em'. injection Em' as <-.
        apply entity_ext; cbn [e_id e_gen]; congruence.
      * destruct (Z.ltb_spec (n - 1) 0), (Z.ltb_spec n 0); try lia. rewrite !andb_false_r. reflexivity.
  - (* a brand new id *)
    destruct (Z.ltb_spec (Z.of_N (lenN (meta e0)) - n) (Z.of_N W32)) as [Hw|Hw]; [|discriminate].
    injection H as <- <-.
    split; [apply (WInv_cursor _ _ _ I); fold e0; lia|].
    set (id := Z.to_N (Z.of_N (lenN (meta e0)) - n)).
    assert (Hnone : nthN (meta e0) id = None) by (apply nthN_ge_None; unfold id; lia).
    split; [|split].
    + apply abs_None_get. fold e0. unfold get. cbn [e_id e_gen]. fold id. rewrite Hnone. fold n.
      destruct (Z.ltb_spec (Z.of_N id) (Z.abs n + Z.of_N (lenN (meta e0)))); [unfold id in *; lia|].
      rewrite andb_false_r. reflexivity.
    + rewrite abs_unfold. cbn [with_ents w_ents]. unfold get. cbn [meta cursor e_id e_gen]. fold id. rewrite Hnone.
      destruct (Z.ltb_spec (n - 1) 0); [|lia].
      destruct (Z.ltb_spec (Z.of_N id) (Z.abs (n - 1) + Z.of_N (lenN (meta e0)))); [|unfold id in *; lia].
      reflexivity.
    + intros h' Hne. apply abs_same_archs. fold e0. unfold get, reserved_part. cbn [meta cursor pending]. fold n.
      replace (Z.to_N (Z.max (n - 1) 0)) with (Z.to_N (Z.max n 0)) by lia.
      destruct (nthN (meta e0) (e_id h')) as [m'|] eqn:Em'; [reflexivity|].
      destruct (N.eqb_spec (e_gen h') 1) as [Eg|Eg]; cbn [andb]; [|reflexivity].
      assert (Hid : e_id h' <> id).
      { intros Ei. apply Hne. apply entity_ext; cbn [e_id e_gen]; [exact Ei|exact Eg]. }
      apply nthN_None_ge in Em'.
      destruct (Z.ltb_spec (n - 1) 0), (Z.ltb_spec n 0); cbn [andb]; try lia;
      destruct (Z.ltb_spec (Z.of_N (e_id h')) (Z.abs (n - 1) + Z.of_N (lenN (meta e0))));
      try destruct (Z.ltb_spec (Z.of_N (e_id h')) (Z.abs n + Z.of_N (lenN (meta e0))));
      try reflexivity; unfold id in Hid; lia.
Qed.

(* ------------------------------------------------------------------------------------------ *)
Theorem clear_refines_proof : clear_refines_stmt.
Proof.
  intros u w w' d I H. unfold w_clear in H. injection H as <- <-.
  set (w' := {| w_ents := ents_clear (w_ents w);
                w_archs := map (fun a => {| a_types := a_types a; a_rows := [] |}) (w_archs w);
                w_index := w_index w; w_b2a := w_b2a w; w_ins := w_ins w; w_rem := w_rem w |}).
  assert (Hrows : forall a, In a (w_archs w') -> a_rows a = []).
  { intros a Ha. unfold w' in Ha. cbn [w_archs] in Ha. apply in_map_iff in Ha as (a0 & <- & _). reflexivity. }
  split; [|split; [|split]].
  - assert (He : w_ents w' = ents_empty) by reflexivity.
    apply WInvP_WInv. constructor; rewrite ?He; cbn [ents_empty meta pending cursor elen].
    + constructor.
    + intros id [].
    + cbn [lenN]. lia.
    + intros m [].
    + constructor.
    + intros id [].
    + intros id m Hm. discriminate.
    + intros l r Hr. apply row_at_Some in Hr as (a & Ha & Hr). rewrite (Hrows a (nthN_In _ _ _ Ha)) in Hr. discriminate.
    + discriminate.
    + cbn [dang_n lenN]. unfold rows_total, w'. cbn [w_archs]. rewrite sumf_map_const0; reflexivity.
    + intros a r Ha Hr. rewrite (Hrows a Ha) in Hr. destruct Hr.
    + intros a Ha. rewrite (Hrows a Ha). cbn [lenN]. unfold SENT. lia.
    + apply (WStatic_frame u w w'); try reflexivity; [|apply WInv_WStatic; exact I].
      unfold atypes, w'. cbn [w_archs]. rewrite map_map. reflexivity.
  - reflexivity.
  - intros h. apply abs_None_get. apply get_ents_empty.
  - reflexivity.
Qed.

(* ------------------------------------------------------------------------------------------ *)



Theorem accessors_agree_proof : accessors_agree_stmt.
Proof.
  intros u w h I.
  assert (Halive : alive w h <-> get (w_ents w) h <> None).
  { unfold alive. split.
    - intros A E. apply A. apply abs_None_get. exact E.
    - intros G. destruct (get (w_ents w) h) as [l|] eqn:Hg; [|congruence].
      destruct (get_classify _ _ _ _ I Hg) as [(_ & E)|(_ & a & r & _ & _ & E)]; rewrite E; discriminate. }
  split; [unfold w_contains; rewrite contains_get, Halive; reflexivity|].
  destruct (get (w_ents w) h) as [l|] eqn:Hg.
  - assert (A : alive w h) by (apply Halive; discriminate).
    destruct (get_classify _ _ _ _ I Hg) as [(-> & Habs)|(Hs & a & r & Ha & Hr & Habs)].
    + destruct (wi_arch0 _ _ I) as (rows & H0).
      assert (Hent : w_entity w h = Some ({| a_types := []; a_rows := rows |}, SENT)).
      { unfold w_entity. rewrite Hg. cbn [EMPTY_LOC l_arch l_idx]. rewrite H0. reflexivity. }
      assert (Hget : forall t, w_get w h t = [1]) by (intros t; unfold w_get; rewrite Hent; reflexivity).
      assert (Hcomp : forall t, comp_of w h t = None) by (intros t; unfold comp_of; rewrite Habs; reflexivity).
      split; [rewrite Hent; split; [intros _; exact A|discriminate]|].
      split; [intros t; rewrite Hget; split; [discriminate|intros NA; contradiction]|].
      split; [intros t v; rewrite Hget, Hcomp; split; discriminate|].
      intros t. rewrite Hget, Hcomp. split; auto.
    + assert (Hent : w_entity w h = Some (a, l_idx l)).
      { unfold w_entity. rewrite Hg, Ha. reflexivity. }
      pose proof (wi_rowtypes _ _ I a r (nthN_In _ _ _ Ha) (nthN_In _ _ _ Hr)) as Hty.
      assert (Hcomp : forall t, comp_of w h t = lookup_first t (r_vals r)) by (intros t; unfold comp_of; rewrite Habs; reflexivity).
      assert (Hget : forall t, w_get w h t = match lookup_first t (r_vals r) with Some v => [2; v] | None => [1] end).
      { intros t. unfold w_get. rewrite Hent, Hr, <- Hty. unfold mem_tid.
        destruct (lookup_first t (r_vals r)) as [v|] eqn:El.
        - destruct (memN t (map fst (r_vals r))) eqn:Em; [reflexivity|]. apply lookup_first_mem in Em. congruence.
        - apply lookup_first_mem in El. rewrite El. reflexivity. }
      split; [rewrite Hent; split; [intros _; exact A|discriminate]|].
      split; [intros t; rewrite Hget; split; [destruct (lookup_first t (r_vals r)); discriminate|intros NA; contradiction]|].
      split.
      * intros t v. rewrite Hget, Hcomp.
        destruct (lookup_first t (r_vals r)); split; intros H; try discriminate; injection H as ->; reflexivity.
      * intros t. rewrite Hget, Hcomp. destruct (lookup_first t (r_vals r)); split; try discriminate; auto.
        intros (_ & H). discriminate.
  - assert (NA : ~ alive w h) by (intros A; apply Halive in A; congruence).
    assert (Hent : w_entity w h = None) by (unfold w_entity; rewrite Hg; reflexivity).
    assert (Hget : forall t, w_get w h t = [0]) by (intros t; unfold w_get; rewrite Hent; reflexivity).
    assert (Hcomp : forall t, comp_of w h t = None).
    { intros t. unfold comp_of. rewrite (abs_None_get _ _ Hg). reflexivity. }
    split; [rewrite Hent; split; [congruence|intros A; contradiction]|].
    split; [intros t; rewrite Hget; split; auto|].
    split; [intros t v; rewrite Hget, Hcomp; split; discriminate|].
    intros t. rewrite Hget. split; [discriminate|]. intros (A & _). contradiction.
Qed.

(* ------------------------------------------------------------------------------------------ *)
(* iteration *)
Lemma iter_ids w : map (fun p => e_id (fst p)) (w_iter w) = concat (map (fun a => map r_id (a_rows a)) (w_archs w)).
Proof.
  unfold w_iter. rewrite concat_map, map_map. f_equal. apply map_ext. intros a. rewrite map_map. reflexivity.
Qed.

Lemma NoDup_all_ids (e : entities) : forall (la : list arch) (k : N),
  (forall j a i r, nthN la j = Some a -> nthN (a_rows a) i = Some r ->
     exists m, nthN (meta e) (r_id r) = Some m /\ m_loc m = mkloc (k + j) i) ->
  NoDup (concat (map (fun a => map r_id (a_rows a)) la)).
Proof.
  induction la as [|a la IH]; intros k H; cbn [map concat]; [constructor|].
  apply NoDup_app_iff. split; [|split].
  - apply NoDup_nthN_inj. intros i j x Hi Hj. rewrite nthN_map in Hi, Hj.
    destruct (nthN (a_rows a) i) as [ri|] eqn:Ei; [|discriminate].
    destruct (nthN (a_rows a) j) as [rj|] eqn:Ej; [|discriminate].
    cbn [option_map] in Hi, Hj. injection Hi as Hi. injection Hj as Hj.
    destruct (H 0 a i ri eq_refl Ei) as (mi & Hmi & Hli).
    destruct (H 0 a j rj eq_refl Ej) as (mj & Hmj & Hlj).
    rewrite Hi in Hmi. rewrite Hj in Hmj. rewrite Hmi in Hmj. injection Hmj as <-.
    rewrite Hli in Hlj. injection Hlj as ->. reflexivity.
  - apply (IH (k + 1)). intros j a' i r Ha' Hr.
    destruct (H (N.succ j) a' i r) as (m & Hm & Hl); [rewrite nthN_cons_succ; exact Ha'|exact Hr|].
    exists m. split; [exact Hm|]. rewrite Hl. f_equal. lia.
  - intros x Hx Hx2. apply in_map_iff in Hx as (r & <- & Hr). apply In_nthN in Hr as (i & Hr).
    apply in_concat in Hx2 as (l & Hl & Hx2). apply in_map_iff in Hl as (a' & <- & Ha').
    apply in_map_iff in Hx2 as (r' & Eid & Hr'). apply In_nthN in Ha' as (j & Ha'). apply In_nthN in Hr' as (i' & Hr').
    destruct (H 0 a i r eq_refl Hr) as (m & Hm & Hlm).
    destruct (H (N.succ j) a' i' r') as (m' & Hm' & Hlm'); [rewrite nthN_cons_succ; exact Ha'|exact Hr'|].
    rewrite Eid, Hm in Hm'. injection Hm' as <-. rewrite Hlm in Hlm'. injection Hlm' as E _. lia.
Qed.

Lemma In_iter w h l :
  In (h, l) (w_iter w) <->
  exists ai a i r, nthN (w_archs w) ai = Some a /\ nthN (a_rows a) i = Some r /\
    h = {| e_id := r_id r; e_gen := gen_of (w_ents w) (r_id r) |} /\ l = r_vals r.
Proof.
  unfold w_iter. rewrite in_concat. split.
  - intros (x & Hx & Hin). apply in_map_iff in Hx as (a & <- & Ha). apply in_map_iff in Hin as (r & E & Hr).
    injection E as <- <-. apply In_nthN in Ha as (ai & Ha). apply In_nthN in Hr as (i & Hr).
    exists ai, a, i, r. auto.
  - intros (ai & a & i & r & Ha & Hr & -> & ->). eexists. split.
    + apply in_map_iff. exists a. split; [reflexivity|]. eapply nthN_In. exact Ha.
    + apply in_map_iff. exists r. split; [reflexivity|]. eapply nthN_In. exact Hr.
Qed.

(* [iter_matches_abs_stmt] needs the bound on the row counts: see the discussion at the end *)
Theorem iter_matches_abs_weakened :
  forall u w, WInv u w -> rows_bounded w -> flushed w ->
    NoDup (map (fun p => e_id (fst p)) (w_iter w)) /\
    lenN (w_iter w) = w_len w /\
    (forall h l, In (h, l) (w_iter w) <-> (abs w h = Some l /\ get_mut (w_ents w) h <> None)).
Proof.
  intros u w I Hb Hf. pose proof (WInv_WInvP _ _ I Hb) as P. split; [|split].
  - rewrite iter_ids. apply (NoDup_all_ids (w_ents w) (w_archs w) 0).
    intros j a i r Ha Hr. destruct (wi_row _ _ I _ _ _ _ Ha Hr) as (m & Hm & Hl). exists m. split; [exact Hm|].
    rewrite Hl. reflexivity.
  - unfold w_iter, w_len. rewrite lenN_concat_map, (wi_len _ _ I). clear.
    induction (w_archs w) as [|a la IH]; cbn [sumf]; [reflexivity|]. rewrite lenN_map, IH. reflexivity.
  - intros h l. rewrite In_iter. split.
    + intros (ai & a & i & r & Ha & Hr & -> & ->).
      assert (Hrow : row_at w (mkloc ai i) = Some r) by (rewrite (row_at_mkloc _ _ _ _ Ha); exact Hr).
      destruct (WInvP_row_owner _ _ _ _ _ _ P Hrow) as (_ & _ & Hs & m & Hm & Hl); [discriminate|].
      assert (Hg : gen_of (w_ents w) (r_id r) = m_gen m) by (unfold gen_of; rewrite Hm; reflexivity).
      rewrite <- Hl in Hs. split.
      * rewrite (abs_located w _ m) by assumption. cbn [e_gen]. rewrite Hg, N.eqb_refl, Hl, Hrow. reflexivity.
      * rewrite (get_mut_located _ _ m) by assumption. cbn [e_gen]. rewrite Hg, N.eqb_refl. discriminate.
    + intros (Habs & Hg). destruct (get_mut (w_ents w) h) as [l0|] eqn:Hgm; [clear Hg|congruence].
      apply get_mut_Some_inv in Hgm as (m & Hm & Hgen & Hs & ->).
      rewrite (abs_located _ _ _ Hm Hs), Hgen, N.eqb_refl in Habs.
      destruct (row_at w (m_loc m)) as [r|] eqn:Hr; [|discriminate]. cbn [option_map] in Habs. injection Habs as <-.
      destruct (wp_loc _ _ _ _ P _ _ Hm) as [(_ & E)|(_ & _ & _ & r' & Hr' & Hid)]; [intros []|rewrite E in Hs; contradiction|].
      rewrite Hr in Hr'. injection Hr' as <-.
      apply row_at_Some in Hr as (a & Ha & Hr). exists (l_arch (m_loc m)), a, (l_idx (m_loc m)), r.
      split; [exact Ha|]. split; [exact Hr|]. split; [|reflexivity].
      apply entity_ext; cbn [e_id e_gen]; [congruence|]. rewrite Hid. unfold gen_of. rewrite Hm. congruence.
Qed.

Corollary iter_matches_abs_fits :
  forall u w, WInv u w -> fits w -> flushed w ->
    NoDup (map (fun p => e_id (fst p)) (w_iter w)) /\
    lenN (w_iter w) = w_len w /\
    (forall h l, In (h, l) (w_iter w) <-> (abs w h = Some l /\ get_mut (w_ents w) h <> None)).
Proof. intros u w I F. apply (iter_matches_abs_weakened u w I (WInv_fits_rows_bounded _ _ I F)). Qed.

(* ------------------------------------------------------------------------------------------ *)
(* [iter_matches_abs_stmt] is false as stated: WInv alone does not exclude an archetype with more
   than SENT rows.  The world below has 2^32 ids, all but the last one alive in archetype 0; id
   SENT is free, its placeholder location (0, SENT) happens to name row number SENT, which
   carries id SENT.  All clauses of WInv hold, the world is flushed, but iteration yields the dead
   handle (SENT, 1).  (The list is far too long for vm_compute, hence a symbolic proof; [n] is
   kept abstract so that nothing ever unfolds seqN.) *)
Definition cex_meta (n : N) : list emeta := map (fun i => {| m_gen := 1; m_loc := mkloc 0 i |}) (seqN 0 n).
Definition cex_rows (n : N) : list row := map (fun i => {| r_id := i; r_vals := [] |}) (seqN 0 n).
Definition cex_world (n : N) : world :=
  {| w_ents := {| meta := cex_meta n; pending := [n - 1]; cursor := 1%Z; elen := n |};
     w_archs := [{| a_types := []; a_rows := cex_rows n |}];
     w_index := [([], 0)]; w_b2a := []; w_ins := []; w_rem := [] |}.

Lemma cex_meta_nth n id m : nthN (cex_meta n) id = Some m <-> id < n /\ m = {| m_gen := 1; m_loc := mkloc 0 id |}.
Proof.
  unfold cex_meta. rewrite nthN_map. destruct (N.lt_ge_cases id n) as [Hlt|Hge].
  - rewrite nthN_seqN by exact Hlt. cbn [option_map]. rewrite N.add_0_l. split; [intros [= <-]; auto|intros (_ & ->); reflexivity].
  - rewrite nthN_ge_None by (rewrite lenN_seqN; exact Hge). cbn [option_map]. split; [discriminate|lia].
Qed.

Lemma cex_rows_nth n i r : nthN (cex_rows n) i = Some r <-> i < n /\ r = {| r_id := i; r_vals := [] |}.
Proof.
  unfold cex_rows. rewrite nthN_map. destruct (N.lt_ge_cases i n) as [Hlt|Hge].
  - rewrite nthN_seqN by exact Hlt. cbn [option_map]. rewrite N.add_0_l. split; [intros [= <-]; auto|intros (_ & ->); reflexivity].
  - rewrite nthN_ge_None by (rewrite lenN_seqN; exact Hge). cbn [option_map]. split; [discriminate|lia].
Qed.

Lemma cex_WInv u n : n = SENT + 1 -> WInv u (cex_world n).
Proof.
  intros Hn.
  assert (Hlm : lenN (cex_meta n) = n) by (unfold cex_meta; rewrite lenN_map; apply lenN_seqN).
  assert (Hlr : lenN (cex_rows n) = n) by (unfold cex_rows; rewrite lenN_map; apply lenN_seqN).
  constructor; unfold cex_world; cbn [w_ents w_archs w_index w_b2a w_ins w_rem meta pending cursor elen].
  - repeat constructor. intros [].
  - intros id [<-|[]]. rewrite Hlm. unfold SENT in Hn. lia.
  - cbn [lenN]. lia.
  - intros m Hm. unfold cex_meta in Hm. apply in_map_iff in Hm as (i & <- & _). cbn [m_gen]. unfold W32. lia.
  - intros id m Hm. apply cex_meta_nth in Hm as (Hlt & ->). cbn [m_loc].
    destruct (N.eq_dec id (n - 1)) as [->|Hne].
    + left. split; [left; reflexivity|]. unfold EMPTY_LOC, mkloc. f_equal. lia.
    + right. split; [intros [E|[]]; congruence|]. split; [cbn [mkloc l_idx]; lia|].
      eexists. exists {| r_id := id; r_vals := [] |}. split; [reflexivity|]. split; [|reflexivity].
      cbn [a_rows mkloc l_idx]. apply cex_rows_nth. auto.
  - intros ai a i r Ha Hr. cbn [nthN] in Ha. destruct (N.eqb_spec ai 0) as [->|]; [|discriminate].
    injection Ha as <-. cbn [a_rows] in Hr. apply cex_rows_nth in Hr as (Hlt & ->). cbn [r_id].
    eexists. split; [apply cex_meta_nth; split; [exact Hlt|reflexivity]|reflexivity].
  - cbn [sumf a_rows]. rewrite Hlr. lia.
  - eexists. reflexivity.
  - intros a [<-|[]]. reflexivity.
  - intros a r [<-|[]] Hr. cbn [a_rows a_types] in *. unfold cex_rows in Hr. apply in_map_iff in Hr as (i & <- & _). reflexivity.
  - intros i a Ha. cbn [nthN] in Ha. destruct (N.eqb_spec i 0) as [->|]; [|discriminate].
    injection Ha as <-. reflexivity.
  - intros k i Hk. cbn [assoc_list] in Hk. destruct k; cbn [list_eqb] in Hk; [|discriminate].
    injection Hk as <-. eexists. split; reflexivity.
  - intros k a H. discriminate.
  - intros src k t H. discriminate.
  - intros src k i H. discriminate.
Qed.

Theorem iter_matches_abs_stmt_false : ~ iter_matches_abs_nofits_stmt.
Proof.
  intros H. remember (SENT + 1) as n eqn:Hn.
  destruct (H [] (cex_world n) (cex_WInv [] n Hn) eq_refl) as (_ & _ & H3).
  destruct (H3 {| e_id := n - 1; e_gen := 1 |} []) as ((_ & Hg) & _).
  - apply In_iter. exists 0, {| a_types := []; a_rows := cex_rows n |}, (n - 1), {| r_id := n - 1; r_vals := [] |}.
    split; [reflexivity|]. split; [apply cex_rows_nth; unfold SENT in Hn; split; [lia|reflexivity]|].
    split; [|reflexivity]. cbn [r_id]. f_equal. unfold gen_of, cex_world. cbn [w_ents meta].
    destruct (nthN (cex_meta n) (n - 1)) as [m|] eqn:E; [|reflexivity].
    apply cex_meta_nth in E as (_ & ->). reflexivity.
  - apply Hg. unfold get_mut, cex_world. cbn [w_ents meta e_id e_gen].
    destruct (nthN (cex_meta n) (n - 1)) as [m|] eqn:E; [|reflexivity].
    apply cex_meta_nth in E as (_ & ->). cbn [m_gen m_loc mkloc l_idx].
    replace (n - 1) with SENT by lia. rewrite !N.eqb_refl. reflexivity.
Qed.

(* ------------------------------------------------------------------------------------------ *)
Print Assumptions world_new_inv_proof.
Print Assumptions flush_refines_proof.
Print Assumptions reserve_refines_proof.
Print Assumptions despawn_refines_proof.
Print Assumptions despawn_never_panics_proof.
Print Assumptions take_drop_refines_proof.
Print Assumptions clear_refines_proof.
Print Assumptions accessors_agree_proof.
Print Assumptions iter_matches_abs_weakened.
Print Assumptions iter_matches_abs_fits.
Print Assumptions iter_matches_abs_stmt_false.

Theorem iter_matches_abs_proof : iter_matches_abs_stmt.
Proof. exact iter_matches_abs_fits. Qed.
Print Assumptions iter_matches_abs_proof.
