(* Proofs for C14 (serialise / deserialise round trips, announced lengths, exactly the satisfying
   entities) and C15 (the decoders are total: error or a world satisfying the invariant, never a
   panic) over Model/Serde.v.  The three facts about the id-targeted spawns that are proved
   elsewhere (Proofs/WorldSpec3.v) are taken as premises. *)
From Coq Require Import List NArith ZArith Bool Lia ZifyBool ZifyNat ZifyN Permutation.
From HecsV Require Import Base.ListN Base.ListNFacts Model.EntityBits Model.Types Model.Entities Model.World
  Model.Query Model.Containers Model.Serde.
From HecsV Require Import Proofs.EntityBitsProofs Proofs.MergeSpec Proofs.MergeProofs Proofs.WorldSpec Proofs.WorldSpec3
  Proofs.QuerySpec Proofs.QueryProofs Base.ListNMore Proofs.ListNMore Proofs.WorldLemmas Proofs.WorldProofs1 Proofs.WorldProofs2
  Proofs.WorldProofs4 Proofs.CorollaryProofs Proofs.ContSpec Proofs.ContProofs1 Proofs.ContMono Proofs.SerdeSpec.
Import ListNotations.
Open Scope N_scope.

(* ========================================================================================== *)
(** * 1. C14: announced lengths *)

Lemma forallb_concat {A} (f : A -> bool) (ls : list (list A)) :
  forallb f (concat ls) = forallb (forallb f) ls.
Proof.
  induction ls as [|l ls IH]; cbn [concat forallb]; [reflexivity|]. rewrite forallb_app, IH. reflexivity.
Qed.

Lemma forallb_map {A B} (g : A -> B) (f : B -> bool) l : forallb f (map g l) = forallb (fun x => f (g x)) l.
Proof. induction l as [|x l IH]; cbn [map forallb]; [reflexivity|]. rewrite IH. reflexivity. Qed.

Lemma forallb_true {A} (f : A -> bool) l : (forall x, f x = true) -> forallb f l = true.
Proof. intros H. apply forallb_forall. intros x _. apply H. Qed.

Lemma lengths_ok_row_entity H vals : lengths_ok (row_ser_entity H vals) = true.
Proof.
  unfold row_ser_entity. cbn [lengths_ok]. rewrite N.eqb_refl. cbn [andb].
  rewrite forallb_concat, forallb_map. apply forallb_true. intros t.
  destruct (lookup_first t vals); reflexivity.
Qed.

Lemma lengths_ok_row H w q : lengths_ok (row_ser H w q) = true.
Proof.
  unfold row_ser. cbn [lengths_ok]. apply andb_true_intro. split.
  - apply N.eqb_eq. rewrite lenN_concat, map_map. f_equal. apply map_ext. intros a.
    destruct (access (a_types a) q); [rewrite lenN_map|]; reflexivity.
  - rewrite forallb_concat, forallb_map. apply forallb_true. intros a.
    destruct (access (a_types a) q); [|reflexivity]. rewrite forallb_map. apply forallb_true. intros r.
    cbn [fst snd lengths_ok]. apply lengths_ok_row_entity.
Qed.

Lemma lengths_ok_col_arch H w a : lengths_ok (col_ser_arch H w a) = true.
Proof.
  unfold col_ser_arch. cbn [lengths_ok forallb lenN]. rewrite !lenN_map. rewrite !N.eqb_refl. cbn [andb].
  rewrite !forallb_map. rewrite (forallb_true (fun _ : tid => true)) by reflexivity.
  rewrite (forallb_true (fun _ : row => true)) by reflexivity. cbn [andb].
  replace (N.eqb (lenN (filter (fun t => mem_tid t (a_types a)) H) + 1)
                 (N.succ (lenN (filter (fun t => mem_tid t (a_types a)) H)))) with true
    by (symmetry; apply N.eqb_eq; lia).
  cbn [andb]. rewrite andb_true_r. apply forallb_true. intros t. cbn [lengths_ok].
  rewrite lenN_map, N.eqb_refl. cbn [andb]. rewrite forallb_map. apply forallb_true. intros r.
  destruct (lookup_first t (r_vals r)); reflexivity.
Qed.

Theorem c14_lengths_proof : c14_lengths_stmt.
Proof.
  intros H w q. split; [apply lengths_ok_row|].
  unfold col_ser. cbn [lengths_ok]. rewrite lenN_map, N.eqb_refl. cbn [andb].
  rewrite forallb_map. apply forallb_true. intros a. apply lengths_ok_col_arch.
Qed.

(* ========================================================================================== *)
(** * 2. the id-space measure under the id-targeted spawns *)

Lemma idm_alloc_at e h e' ol B :
  alloc_at e h = Done (e', ol) -> idm e <= B -> e_id h + 1 <= B -> idm e' <= B.
Proof.
  rewrite alloc_at_eq. destruct (needs_flush e) eqn:Hn; [discriminate|].
  unfold needs_flush in Hn. apply negb_false_iff, Z.eqb_eq in Hn.
  destruct (alloc_at1 e (e_id h)) as [e1 l] eqn:H1.
  destruct (nthN (meta e1) (e_id h)) as [m|]; [|discriminate]. intros [= <- <-] HB Hid.
  assert (G : idm e1 <= B).
  { unfold alloc_at1 in H1. destruct (N.leb_spec (lenN (meta e)) (e_id h)) as [Hle|Hlt].
    - injection H1 as <- _. unfold idm in *. cbn [meta cursor]. rewrite lenN_app, lenN_repeatN. lia.
    - destruct (positionN (e_id h) (pending e)).
      + injection H1 as <- _. unfold idm in *. cbn [meta cursor]. lia.
      + injection H1 as <- _. rewrite idm_set_loc. exact HB. }
  unfold idm, set_meta in *. cbn [meta cursor]. rewrite lenN_updN. exact G.
Qed.

Lemma idm_spawn_inner u w h b w' : spawn_inner u w h b = Done w' -> idm (w_ents w') = idm (w_ents w).
Proof.
  intros H. apply spawn_inner_unfold in H as (w1 & aid & w2 & i & Hba & Hput & ->).
  cbn [with_ents w_ents]. rewrite idm_set_loc, (ents_put_row _ _ _ _ _ _ Hput), (ents_bundle_archetype _ _ _ _ _ Hba).
  reflexivity.
Qed.

Lemma idm_w_spawn_at u w h b w' d B :
  w_spawn_at u w h b = Done (w', d) -> idm (w_ents w) <= B -> e_id h + 1 <= B -> idm (w_ents w') <= B.
Proof.
  intros H HB Hid. apply w_spawn_at_unfold in H as (w0 & e & ol & w2 & Hfl & Hal & Hmid & Hsp).
  rewrite (idm_spawn_inner _ _ _ _ _ Hsp).
  assert (G : idm e <= B).
  { eapply idm_alloc_at; [exact Hal| |exact Hid]. rewrite (idm_w_flush _ _ Hfl). exact HB. }
  destruct ol as [l|].
  - destruct Hmid as (r & Hd & _). rewrite (idm_detach_row _ _ _ _ Hd). exact G.
  - destruct Hmid as (-> & _). exact G.
Qed.

Lemma idm_replace_handles : forall hs w d w' d' B,
  replace_handles w hs d = (w', None, d') -> idm (w_ents w) <= B -> (forall h, In h hs -> e_id h + 1 <= B) ->
  idm (w_ents w') <= B.
Proof.
  induction hs as [|h r IH]; intros w d w' d' B H HB Hid; cbn [replace_handles] in H.
  - injection H as <- _. exact HB.
  - destruct (alloc_at (w_ents w) h) as [[e [l|]]|c] eqn:Ha; [| |discriminate].
    + destruct (N.eqb (l_idx l) SENT); [discriminate|].
      destruct (detach_row (with_ents w e) l) as [[w1 row]|c] eqn:Hd; [|discriminate].
      eapply IH; [exact H| |intros h' Hh'; apply Hid; right; exact Hh'].
      rewrite (idm_detach_row _ _ _ _ Hd). cbn [with_ents w_ents].
      eapply idm_alloc_at; [exact Ha|exact HB|apply Hid; left; reflexivity].
    + eapply IH; [exact H| |intros h' Hh'; apply Hid; right; exact Hh'].
      cbn [with_ents w_ents]. eapply idm_alloc_at; [exact Ha|exact HB|apply Hid; left; reflexivity].
Qed.

Lemma ents_insert_batch w types rows w' aid base :
  insert_batch w types rows = Done (w', aid, base) -> w_ents w' = w_ents w.
Proof.
  unfold insert_batch. destruct (assoc_list types (w_index w)) as [x|].
  - unfold get_arch. destruct (nthN (w_archs w) x); [|discriminate]. cbn [bind]. intros [= <- _ _]. reflexivity.
  - intros [= <- _ _]. reflexivity.
Qed.

Lemma idm_set_handle_locs : forall hs e aid idx, idm (set_handle_locs e hs aid idx) = idm e.
Proof.
  induction hs as [|h r IH]; intros e aid idx; cbn [set_handle_locs]; [reflexivity|].
  rewrite IH. apply idm_set_loc.
Qed.

Lemma idm_w_spawn_column_batch_at w hs types vals w' d B :
  w_spawn_column_batch_at w hs types vals = (w', None, d) ->
  idm (w_ents w) <= B -> (forall h, In h hs -> e_id h + 1 <= B) -> idm (w_ents w') <= B.
Proof.
  unfold w_spawn_column_batch_at. intros H HB Hid.
  destruct (w_flush w) as [w0|c] eqn:Hfl; [|discriminate].
  destruct (negb (N.eqb (lenN hs) (lenN vals))); [discriminate|].
  destruct (replace_handles w0 hs []) as [[w1 [c|]] d1] eqn:Hr; [discriminate|].
  destruct (insert_batch w1 types (zip_rows (map e_id hs) vals)) as [[[w2 aid] base]|c] eqn:Hi; [|discriminate].
  injection H as <- _. cbn [with_ents w_ents]. rewrite idm_set_handle_locs, (ents_insert_batch _ _ _ _ _ _ Hi).
  eapply idm_replace_handles; [exact Hr| |exact Hid]. rewrite (idm_w_flush _ _ Hfl). exact HB.
Qed.

(* ========================================================================================== *)
(** * 3. C15, row format *)

(* worlds the decoders build: the invariant, and no id beyond MAX_DE_ID was ever allocated *)
Definition DInv (u : universe) (w : world) : Prop := WInv u w /\ idm (w_ents w) <= MAX_DE_ID + 1.

Lemma DInv_fits u w : DInv u w -> fits w.
Proof. intros [_ H]. apply fits_idm. unfold MAX_DE_ID, SENT in *. lia. Qed.

Lemma world_new_DInv u : DInv u world_new.
Proof.
  split; [apply (world_new_inv_proof u)|]. unfold idm, world_new, ents_empty, MAX_DE_ID. cbn [w_ents meta cursor lenN]. lia.
Qed.

Lemma row_de_comps_binv u H : forall l c d c' d',
  BInv' c -> row_de_comps u H c l d = Some (c', d') -> BInv' c'.
Proof.
  induction l as [|[k v] r IH]; intros c d c' d' Hc E; cbn [row_de_comps] in E.
  - injection E as <- _. exact Hc.
  - destruct (dec_u32 k) as [t|]; [|discriminate]. destruct (dec_num v) as [x|]; [|discriminate].
    destruct (mem_tid t H && val_fits u t x); [|discriminate].
    pose proof (binv_add u c t x Hc) as H1.
    destruct (common_add u c t x) as [[c1 d1] ev]. cbn [fst] in H1. eapply IH; [exact H1|exact E].
Qed.

Lemma built_bundle_ok u c : BInv' c -> bundle_ok (built_bundle (builder_build u c)).
Proof.
  intros Hc. apply BInv_iff in Hc. destruct (c13_clear_build_proof u c Hc) as (_ & Hb & _).
  cbn zeta in Hb. destruct Hb as (_ & Hnd & _). split; [exact Hnd|]. intros k Hk. discriminate Hk.
Qed.

Lemma after_put_binv c : BInv' (builder_after_put c).
Proof. unfold builder_after_put. apply binv_empty. Qed.

Lemma dec_entity_valid t h : dec_entity t = Some h -> valid_entity h.
Proof.
  destruct t as [n| |]; cbn [dec_entity]; try discriminate.
  destruct (N.ltb n 18446744073709551616); [|discriminate]. apply from_bits_valid.
Qed.

Definition good_row (u : universe) (r : dres (world * list (tid * val))) : Prop :=
  match r with DOk (w, _) => DInv u w | DErr => True | DPanic _ => False end.

(* one decoded entity: spawn_at at a valid handle with a small id, a duplicate-free bundle *)
Lemma spawn_at_step u w h b :
  spawn_at_never_panics_stmt -> total_inj u -> DInv u w -> bundle_ok b -> valid_entity h -> e_id h <= MAX_DE_ID ->
  exists w' d, w_spawn_at u w h b = Done (w', d) /\ DInv u w' /\ flushed w' /\
    (exists l, abs w' h = Some l /\ forall t, lookup_first t l = lookup_first t (b_items b)) /\
    (forall h', e_id h' <> e_id h -> abs w' h' = abs w h') /\
    (forall h', e_id h' = e_id h -> h' <> h -> abs w' h' = None).
Proof.
  intros SP Hu D Hb Hv Hid. pose proof (DInv_fits _ _ D) as F. destruct D as [I HB].
  destruct (SP u w h b Hu I F Hb Hv) as (w' & d & E).
  { fold (idm (w_ents w)). rewrite <- N.add_assoc. fold (idm (w_ents w)). unfold MAX_DE_ID, SENT in *. lia. }
  exists w', d. split; [exact E|].
  assert (HB' : idm (w_ents w') <= MAX_DE_ID + 1).
  { eapply idm_w_spawn_at; [exact E|exact HB|lia]. }
  assert (F' : fits w'). { apply fits_idm. unfold MAX_DE_ID, SENT in *. lia. }
  destruct (spawn_at_refines_proof u w h b w' d Hu I F Hb Hv E F') as (I' & Hf' & Hnew & Hoth & Hsame & _).
  split; [split; [exact I'|exact HB']|]. auto.
Qed.

Lemma row_de_entities_total u H reader :
  spawn_at_never_panics_stmt -> total_inj u ->
  forall l w c d, DInv u w -> BInv' c -> good_row u (fst (row_de_entities u H reader w c l d)).
Proof.
  intros SP Hu. induction l as [|[k v] r IH]; intros w c d D Hc; cbn [row_de_entities].
  - cbn [fst good_row]. exact D.
  - destruct (dec_entity k) as [h|] eqn:Eh; [|exact I].
    destruct v as [n|ann l0|cann comps0]; try exact I.
    destruct (match rd_pref reader cann comps0 with
              | Some comps => row_de_comps u H c comps d
              | None => None
              end) as [[c' d']|] eqn:Ec; [|exact I].
    destruct (N.ltb_spec MAX_DE_ID (e_id h)) as [Hbig|Hsmall]; [exact I|].
    assert (Hc' : BInv' c').
    { destruct (rd_pref reader cann comps0) as [comps|]; [|discriminate]. eapply row_de_comps_binv; [exact Hc|exact Ec]. }
    destruct (spawn_at_step u w h (built_bundle (builder_build u c')) SP Hu D (built_bundle_ok u c' Hc')
                (dec_entity_valid _ _ Eh) Hsmall) as (w' & d1 & E & D' & _).
    rewrite E. apply IH; [exact D'|apply after_put_binv].
Qed.

Theorem c15_total_row_from : spawn_at_never_panics_stmt -> c15_total_row_stmt.
Proof.
  intros SP u H reader t Hu _. unfold row_de. destruct t as [n|ann l|ann l0]; try exact I.
  destruct (rd_pref reader ann l0) as [l|]; [|exact I].
  pose proof (row_de_entities_total u H reader SP Hu l world_new common_new [] (world_new_DInv u)
                (binv_empty _ _)) as G.
  destruct (fst (row_de_entities u H reader world_new common_new l [])) as [[w d]| |p]; cbn [good_row] in G.
  - split; [apply G|apply (DInv_fits u), G].
  - exact I.
  - exact G.
Qed.

(* ========================================================================================== *)
(** * 4. C15, column format *)

Definition nodup_go : list N -> bool :=
  fix go (l : list N) : bool := match l with [] => true | x :: r => negb (memN x r) && go r end.

Lemma nodup_ids_eq hs : nodup_ids hs = nodup_go (map e_id hs).
Proof. reflexivity. Qed.

Lemma nodup_go_iff l : nodup_go l = true <-> NoDup l.
Proof.
  induction l as [|x r IH]; cbn [nodup_go]; [split; [constructor|reflexivity]|].
  rewrite andb_true_iff, negb_true_iff, IH, memN_false. split.
  - intros [Hx Hr]. constructor; assumption.
  - intros Hn. inversion Hn; subst. split; assumption.
Qed.

Lemma nodup_ids_iff hs : nodup_ids hs = true <-> NoDup (map e_id hs).
Proof. rewrite nodup_ids_eq. apply nodup_go_iff. Qed.

Lemma dec_all_Forall {A} (f : tok -> option A) (P : A -> Prop) :
  (forall t a, f t = Some a -> P a) -> forall l rs, dec_all f l = Some rs -> Forall P rs.
Proof.
  intros Hf. induction l as [|x r IH]; intros rs E; cbn [dec_all] in E.
  - injection E as <-. constructor.
  - destruct (f x) as [a|] eqn:Ea; [|discriminate]. destruct (dec_all f r) as [rs'|]; [|discriminate].
    injection E as <-. constructor; [eapply Hf; exact Ea|apply IH; reflexivity].
Qed.

Lemma cb_fold_fst : forall ps b acc1 acc2,
  fst (fold_left cb_step ps (b, acc1)) = fst (fold_left cb_step ps (b, acc2)).
Proof.
  induction ps as [|p ps IH]; intros b acc1 acc2; cbn [fold_left]; [reflexivity|].
  unfold cb_step at 2 4. cbn [fst snd]. destruct (cbatch_push b (fst p) (snd p)) as [[b1 rej]|]; apply IH.
Qed.

(* the columns visitor is a schedule of pushes *)
Lemma col_de_columns_run u reader ecount : forall ids b cols b' rest,
  col_de_columns u reader ecount ids b cols = Some (b', rest) ->
  exists ps, fst (fold_left cb_step ps (b, [])) = b'.
Proof.
  induction ids as [|t r IH]; intros b cols b' rest E; cbn [col_de_columns] in E.
  - injection E as <- _. exists []. reflexivity.
  - destruct cols as [|[n|ann vs|ann vs] cols']; try discriminate.
    destruct (rd_seq reader ecount vs) as [seen|]; [|discriminate].
    destruct (dec_all dec_num seen) as [xs|]; [|discriminate].
    destruct (negb (forallb (val_fits u t) xs)); [discriminate|].
    destruct (cbatch_push b t xs) as [[b1 [|rj rej]]|] eqn:Ep; try discriminate.
    destruct (col_of t (cb_cols b1)) as [cur|]; [|discriminate].
    destruct (N.ltb (lenN cur) ecount); [discriminate|].
    destruct (N.eqb reader 0 && negb (N.eqb (lenN vs) (lenN seen))); [discriminate|].
    destruct (IH _ _ _ _ E) as (ps & Hps). exists ((t, xs) :: ps). cbn [fold_left].
    unfold cb_step at 2. cbn [fst snd]. rewrite Ep. rewrite (cb_fold_fst ps b1 _ []). exact Hps.
Qed.

Definition good_col (u : universe) (r : dres world) : Prop :=
  match r with DOk w => DInv u w | DErr => True | DPanic _ => False end.

(* one decoded archetype: a complete batch at valid handles with small, pairwise distinct ids *)
Lemma batch_at_step u w hs types vals :
  column_batch_at_refines_stmt -> column_batch_at_total_stmt -> total_inj u -> DInv u w ->
  assert_type_info u types = 0 -> (forall v, In v vals -> map fst v = types) ->
  Forall valid_entity hs -> NoDup (map e_id hs) -> lenN hs = lenN vals ->
  (forall h, In h hs -> e_id h <= MAX_DE_ID) ->
  exists w' d, w_spawn_column_batch_at w hs types vals = (w', None, d) /\ DInv u w' /\ flushed w' /\
    (forall i h v, nthN hs i = Some h -> nthN vals i = Some v -> abs w' h = Some v) /\
    (forall h', ~ In (e_id h') (map e_id hs) -> abs w' h' = abs w h') /\
    (forall h', In (e_id h') (map e_id hs) -> ~ In h' hs -> abs w' h' = None).
Proof.
  intros CR CT Hu D Hty Hrows Hv Hnd Hlen Hid. pose proof (DInv_fits _ _ D) as F. destruct D as [I HB].
  pose proof (CT u w hs types vals Hu I F Hty Hrows Hv) as T.
  destruct (w_spawn_column_batch_at w hs types vals) as [[w' [p|]] d] eqn:E.
  - exfalso. destruct T as (_ & [T|T]); [|exact (T Hlen)|exact (T Hnd)].
    intros h Hh. specialize (Hid h Hh). fold (idm (w_ents w)). rewrite <- N.add_assoc. fold (idm (w_ents w)).
    unfold MAX_DE_ID, SENT in *. lia.
  - exists w', d. split; [reflexivity|].
    assert (HB' : idm (w_ents w') <= MAX_DE_ID + 1).
    { eapply idm_w_spawn_column_batch_at; [exact E|exact HB|]. intros h Hh. specialize (Hid h Hh). lia. }
    assert (F' : fits w'). { apply fits_idm. unfold MAX_DE_ID, SENT in *. lia. }
    destruct (CR u w hs types vals w' d Hu I F Hty Hrows Hv Hnd E F') as (I' & Hf' & H1 & H2 & H3).
    split; [split; [exact I'|exact HB']|]. auto.
Qed.

Lemma batch_facts u idl ecount ps b' :
  total_inj u -> fst (fold_left cb_step ps (cbatch_new u idl ecount, [])) = b' -> cbatch_complete b' = true ->
  assert_type_info u (cb_types b') = 0 /\ lenN (cbatch_rows b') = ecount /\
  (forall v, In v (cbatch_rows b') -> map fst v = cb_types b').
Proof.
  intros Hu Hb Hc. pose proof (cinv_run u idl ecount ps) as Hinv.
  pose proof (c12_rows_total_inj u idl ecount ps Hu) as Hrows. rewrite cb_run_eq in Hinv, Hrows.
  destruct (fold_left cb_step ps (cbatch_new u idl ecount, [])) as [b rej]. cbn [fst] in Hb. subst b'.
  destruct Hinv as (Hty & _). cbn [fst] in Hty. destruct (Hrows Hc) as (Hlen & Hr & _).
  split; [|split; [exact Hlen|]].
  - rewrite Hty. apply (c12_types_proof u idl ecount Hu).
  - intros v Hv. apply In_nthN in Hv as (i & Hi). apply (Hr i v Hi).
Qed.

Lemma col_de_arch_total u H reader w t :
  column_batch_at_refines_stmt -> column_batch_at_total_stmt -> total_inj u -> DInv u w ->
  good_col u (col_de_arch u H reader w t).
Proof.
  intros CR CT Hu D. unfold col_de_arch.
  destruct t as [n|ann elems|ann elems]; try exact I.
  destruct (rd_seq reader 4 elems) as [l4|]; [|exact I].
  destruct l4 as [|[ecount| |] [|[ccount| |] [|[|ann1 ids|] [|[|ann2 comps|] [|]]]]]; try exact I.
  destruct (N.eqb reader 0 && negb (N.eqb (lenN elems) 4)); [exact I|].
  destruct (negb (N.ltb ecount 4294967296) || negb (N.ltb ccount 4294967296)); [exact I|].
  destruct (rd_seq reader ccount ids) as [idtoks|]; [|exact I].
  destruct (dec_all dec_u32 idtoks) as [idl|]; [|exact I].
  destruct (negb (forallb (fun t => mem_tid t H) idl)); [exact I|].
  destruct (rd_seq reader (ccount + 1) comps) as [[|[|ann3 ents|] cols]|]; try exact I.
  destruct (rd_seq reader ecount ents) as [es|]; [|exact I].
  destruct (dec_all dec_entity es) as [hs|] eqn:Ehs; [|exact I].
  destruct (N.eqb_spec (lenN hs) ecount) as [Hlen|]; [|exact I]. cbn [negb].
  destruct (col_de_columns u reader ecount idl (cbatch_new u idl ecount) cols) as [[b' leftover]|] eqn:Ec; [|exact I].
  destruct (N.eqb reader 0 && match leftover with [] => false | _ => true end); [exact I|].
  destruct (cbatch_complete b') eqn:Ecomp; [|exact I]. cbn [negb].
  destruct (nodup_ids hs) eqn:End; [|exact I]. cbn [negb].
  destruct (existsb (fun h => N.ltb MAX_DE_ID (e_id h)) hs) eqn:Eex; [exact I|].
  destruct (col_de_columns_run _ _ _ _ _ _ _ _ Ec) as (ps & Hps).
  destruct (batch_facts u idl ecount ps b' Hu Hps Ecomp) as (Hty & Hrl & Hrows).
  destruct (batch_at_step u w hs (cb_types b') (cbatch_rows b') CR CT Hu D Hty Hrows) as (w' & d & E & D' & _).
  - eapply dec_all_Forall; [|exact Ehs]. apply dec_entity_valid.
  - apply nodup_ids_iff, End.
  - rewrite Hrl. exact Hlen.
  - intros h Hh. destruct (N.ltb_spec MAX_DE_ID (e_id h)) as [Hbig|Hsm]; [|exact Hsm].
    exfalso. assert (X : existsb (fun h => N.ltb MAX_DE_ID (e_id h)) hs = true).
    { apply existsb_exists. exists h. split; [exact Hh|]. apply N.ltb_lt. exact Hbig. }
    congruence.
  - rewrite E. exact D'.
Qed.

Lemma col_de_archs_total u H reader :
  column_batch_at_refines_stmt -> column_batch_at_total_stmt -> total_inj u ->
  forall l w, DInv u w -> good_col u (col_de_archs u H reader w l).
Proof.
  intros CR CT Hu. induction l as [|a r IH]; intros w D; cbn [col_de_archs]; [exact D|].
  pose proof (col_de_arch_total u H reader w a CR CT Hu D) as G.
  destruct (col_de_arch u H reader w a) as [w'| |p]; cbn [good_col] in G |- *; [apply IH; exact G|exact I|exact G].
Qed.

Theorem c15_total_col_from : column_batch_at_refines_stmt -> column_batch_at_total_stmt -> c15_total_col_stmt.
Proof.
  intros CR CT u H reader t Hu _. unfold col_de. destruct t as [n|ann l0|ann l]; try exact I.
  destruct (rd_pref reader ann l0) as [l|]; [|exact I].
  pose proof (col_de_archs_total u H reader CR CT Hu l world_new (world_new_DInv u)) as G.
  destruct (col_de_archs u H reader world_new l) as [w| |p]; cbn [good_col] in G.
  - split; [apply G|apply (DInv_fits u), G].
  - exact I.
  - exact G.
Qed.

(* ========================================================================================== *)
(** * 5. C14: exactly the satisfying entities are emitted *)

(* the entities the serialisers visit: (handle, stored components), archetype order, row order *)
Definition emitted (w : world) (q : query) : list (entity * comps) :=
  concat (map (fun a => match access (a_types a) q with
                        | Some _ => map (fun r => (handle_of w (r_id r), r_vals r)) (a_rows a)
                        | None => []
                        end) (w_archs w)).

Definition enc_entity (H : list tid) (p : entity * comps) : tok * tok :=
  (TN (to_bits (fst p)), row_ser_entity H (snd p)).

Lemma row_ser_eq H w q : row_ser H w q = TM (query_len w q) (map (enc_entity H) (emitted w q)).
Proof.
  unfold row_ser, query_len, emitted. f_equal. rewrite concat_map, map_map. f_equal. apply map_ext. intros a.
  destruct (access (a_types a) q); [rewrite map_map|]; reflexivity.
Qed.

Lemma In_emitted w q h l :
  In (h, l) (emitted w q) <->
  exists a r, In a (w_archs w) /\ In r (a_rows a) /\ sat (a_types a) q = true /\
              h = handle_of w (r_id r) /\ l = r_vals r.
Proof.
  unfold emitted. rewrite in_concat. split.
  - intros (x & Hx & Hin). apply in_map_iff in Hx as (a & <- & Ha).
    pose proof (access_sat (a_types a) q) as Hs.
    destruct (access (a_types a) q); [|destruct Hin]. apply in_map_iff in Hin as (r & E & Hr).
    injection E as <- <-. exists a, r. auto.
  - intros (a & r & Ha & Hr & Hs & -> & ->). eexists. split; [apply in_map_iff; exists a; split; [reflexivity|exact Ha]|].
    rewrite <- access_sat in Hs. destruct (access (a_types a) q); [|discriminate Hs].
    apply in_map_iff. exists r. split; [reflexivity|exact Hr].
Qed.

Lemma emitted_query_iter w q h :
  (exists l, In (h, l) (emitted w q)) <-> (exists i, In (h, i) (query_iter w q)).
Proof.
  split.
  - intros (l & Hl). apply In_emitted in Hl as (a & r & Ha & Hr & Hs & -> & ->).
    destruct (sat_prepare _ _ Hs) as (s & Hp). apply In_nthN in Ha as (ai & Ha). apply In_nthN in Hr as (ri & Hr).
    eexists. apply In_query_iter. exists ai, a, ri, r, s. repeat split; try eassumption.
  - intros (i & Hi). apply In_query_iter in Hi as (ai & a & ri & r & s & Ha & Hr & Hp & -> & ->).
    exists (r_vals r). apply In_emitted. exists a, r.
    split; [eapply nthN_In; exact Ha|]. split; [eapply nthN_In; exact Hr|].
    split; [eapply prepare_Some_sat; exact Hp|]. split; reflexivity.
Qed.

Theorem c14_satisfying_proof : c14_satisfying_stmt.
Proof.
  intros u H w q I F. rewrite row_ser_eq. intros b. rewrite map_map. cbn [enc_entity fst].
  destruct (c08_iter_proof u w q I F) as (_ & Hiter & _). split.
  - intros Hin. apply in_map_iff in Hin as ([h l] & E & Hl). cbn [fst] in E. injection E as <-.
    destruct (proj1 (emitted_query_iter w q h)) as (i & Hi); [eexists; exact Hl|].
    apply Hiter in Hi as (l0 & Hloc & Ha & Hs & _). exists h, l0. auto.
  - intros (h & l0 & <- & Hloc & Ha & Hs).
    assert (Hi : In (h, item_spec l0 q) (query_iter w q)). { apply Hiter. exists l0. auto. }
    destruct (proj2 (emitted_query_iter w q h)) as (l & Hl); [eexists; exact Hi|].
    apply in_map_iff. exists (h, l). split; [reflexivity|exact Hl].
Qed.

(* ========================================================================================== *)
(** * 6. C14: round trip, row format *)

(* ---- what the serialisers visit, in terms of [abs] ---- *)
Lemma emitted_spec u w q h l :
  WInv u w -> fits w -> flushed w ->
  (In (h, l) (emitted w q) <-> (abs w h = Some l /\ get_mut (w_ents w) h <> None /\ sat (map fst l) q = true)).
Proof.
  intros I F Hf. destruct (iter_matches_abs_proof u w I F Hf) as (_ & _ & Hit). rewrite In_emitted. split.
  - intros (a & r & Ha & Hr & Hs & -> & ->).
    rewrite (wi_rowtypes _ _ I a r Ha Hr).
    assert (X : abs w (handle_of w (r_id r)) = Some (r_vals r) /\ get_mut (w_ents w) (handle_of w (r_id r)) <> None).
    { apply Hit. apply In_iter. apply In_nthN in Ha as (ai & Ha). apply In_nthN in Hr as (ri & Hr).
      exists ai, a, ri, r. repeat split; assumption. }
    destruct X as [X1 X2]. auto.
  - intros (Ha & Hl & Hs). assert (Hin : In (h, l) (w_iter w)) by (apply Hit; split; assumption).
    apply In_iter in Hin as (ai & a & ri & r & Hna & Hnr & -> & ->). exists a, r.
    pose proof (nthN_In _ _ _ Hna) as Hia. pose proof (nthN_In _ _ _ Hnr) as Hir.
    rewrite (wi_rowtypes _ _ I a r Hia Hir) in Hs. repeat split; assumption.
Qed.

Lemma emitted_ids w q :
  map (fun p => e_id (fst p)) (emitted w q) = map (fun p => e_id (fst p)) (query_iter w q).
Proof.
  rewrite query_iter_ids. unfold emitted. rewrite concat_map, map_map. f_equal. apply map_ext. intros a.
  pose proof (access_sat (a_types a) q) as H1. pose proof (prepare_sat (a_types a) q) as H2.
  destruct (access (a_types a) q), (prepare (a_types a) q); cbn [isS] in *; try congruence; [|reflexivity].
  rewrite map_map. reflexivity.
Qed.

Lemma emitted_handle u w q h l :
  WInv u w -> fits w -> In (h, l) (emitted w q) -> valid_entity h /\ to_bits h < 18446744073709551616.
Proof.
  intros I F Hin. apply In_emitted in Hin as (a & r & Ha & Hr & _ & -> & _).
  apply In_nthN in Ha as (ai & Ha). apply In_nthN in Hr as (ri & Hr).
  destruct (wi_row _ _ I _ _ _ _ Ha Hr) as (m & Hm & _).
  assert (Hv : valid_entity (handle_of w (r_id r))).
  { unfold valid_entity, handle_of, gen_of. cbn [e_id e_gen]. rewrite Hm. split.
    - apply nthN_Some_lt in Hm. apply fits_meta_lt in F. unfold SENT, W32 in *. lia.
    - apply (wi_gen _ _ I). eapply nthN_In. exact Hm. }
  split; [exact Hv|]. apply to_bits_nonzero in Hv. unfold W64 in Hv. apply Hv.
Qed.

(* ---- one entity's component map ---- *)
Definition kept_pairs (H : list tid) (vals : comps) : comps :=
  concat (map (fun t => match lookup_first t vals with Some v => [(t, v)] | None => [] end) H).
Definition enc_comp (p : tid * val) : tok * tok := (TN (fst p), TN (snd p)).

Lemma row_ser_entity_eq H vals :
  row_ser_entity H vals = TM (lenN (kept_pairs H vals)) (map enc_comp (kept_pairs H vals)).
Proof.
  unfold row_ser_entity.
  assert (E : concat (map (fun t => match lookup_first t vals with Some v => [(TN t, TN v)] | None => [] end) H)
              = map enc_comp (kept_pairs H vals)).
  { unfold kept_pairs. rewrite concat_map, map_map. f_equal. apply map_ext. intros t.
    destruct (lookup_first t vals); reflexivity. }
  rewrite E, lenN_map. reflexivity.
Qed.

Lemma kept_pairs_last H vals t :
  lookup_last t (kept_pairs H vals) = if mem_tid t H then lookup_first t vals else None.
Proof.
  unfold kept_pairs, mem_tid. induction H as [|t0 H IH]; cbn [map concat memN]; [reflexivity|].
  destruct (lookup_first t0 vals) as [v|] eqn:E0; cbn [app lookup_last]; rewrite IH.
  - destruct (N.eqb_spec t t0) as [->|Hne].
    + rewrite E0. destruct (memN t0 H); reflexivity.
    + destruct (memN t H); [destruct (lookup_first t vals)|]; reflexivity.
  - destruct (N.eqb_spec t t0) as [->|Hne]; [|reflexivity]. rewrite E0. destruct (memN t0 H); reflexivity.
Qed.

Lemma In_kept_pairs H vals t v : In (t, v) (kept_pairs H vals) -> In t H /\ lookup_first t vals = Some v.
Proof.
  unfold kept_pairs. rewrite in_concat. intros (x & Hx & Hin). apply in_map_iff in Hx as (t0 & <- & Ht0).
  destruct (lookup_first t0 vals) as [v0|] eqn:E; [|destruct Hin]. destruct Hin as [[= <- <-]|[]]. auto.
Qed.

Lemma lookup_first_In t (l : comps) v : lookup_first t l = Some v -> In (t, v) l.
Proof.
  induction l as [|[t' v'] r IH]; cbn [lookup_first]; [discriminate|].
  destruct (N.eqb_spec t t') as [->|Hne]; [intros [= ->]; left; reflexivity|intros E; right; apply IH, E].
Qed.

Lemma row_de_comps_enc u H : forall l c d,
  BInv' c ->
  (forall t v, In (t, v) l -> t < 4294967296 /\ mem_tid t H = true /\ val_fits u t v = true) ->
  exists c' d', row_de_comps u H c (map enc_comp l) d = Some (c', d') /\ BInv' c' /\
    forall t, lookup_first t (b_abs c') =
              match lookup_last t l with Some v => Some v | None => lookup_first t (b_abs c) end.
Proof.
  induction l as [|[t0 v0] r IH]; intros c d Hc Hl; cbn [map row_de_comps].
  - exists c, d. split; [reflexivity|]. split; [exact Hc|]. intros t. reflexivity.
  - destruct (Hl t0 v0 (or_introl eq_refl)) as (Hlt & Hm & Hvf).
    cbn [enc_comp fst snd dec_u32 dec_num]. destruct (N.ltb_spec t0 4294967296) as [_|Hge]; [|lia].
    rewrite Hm, Hvf. cbn [andb].
    destruct (common_add u c t0 v0) as [[c1 d1] ev] eqn:E.
    assert (Hstep : bstep u c (BAdd t0 v0) = (c1, d1)). { unfold bstep. rewrite E. reflexivity. }
    destruct (c13_add_proof u c t0 v0 c1 d1 (proj2 (BInv_iff c) Hc) Hstep) as (Hnew & Hoth & _).
    pose proof (binv_add u c t0 v0 Hc) as Hc1. rewrite E in Hc1. cbn [fst] in Hc1.
    destruct (IH c1 (d ++ d1) Hc1) as (c' & d' & E' & Hc' & Hlk).
    { intros t v Hin. apply Hl. right. exact Hin. }
    exists c', d'. split; [exact E'|]. split; [exact Hc'|]. intros t. rewrite Hlk. cbn [lookup_last].
    destruct (lookup_last t r); [reflexivity|]. destruct (N.eqb_spec t t0) as [->|Hne]; [exact Hnew|apply Hoth, Hne].
Qed.

Lemma built_bundle_lookup u c t :
  BInv' c -> lookup_first t (b_items (built_bundle (builder_build u c))) = lookup_first t (b_abs c).
Proof.
  intros Hc. apply BInv_iff in Hc. destruct (c13_clear_build_proof u c Hc) as (_ & Hb & _).
  cbn zeta in Hb. destruct Hb as (Hp & Hnd & _). apply lookup_first_perm; [exact Hnd|exact Hp].
Qed.

Lemma rd_pref_exact {A} reader ann (l : list A) : ann = lenN l -> rd_pref reader ann l = Some l.
Proof.
  intros ->. unfold rd_pref. destruct (N.eqb reader 0); [reflexivity|].
  destruct (N.leb_spec (lenN l) (lenN l)) as [_|Hc]; [|lia]. rewrite takeN_all by lia. reflexivity.
Qed.

Lemma handled_lookup H (l : comps) t :
  lookup_first t (handled H l) = if mem_tid t H then lookup_first t l else None.
Proof. unfold handled. apply (lookup_first_filter (fun t => mem_tid t H)). Qed.

Lemma handled_sorted u H (l : comps) :
  assert_type_info u (map fst l) = 0 -> assert_type_info u (map fst (handled H l)) = 0.
Proof.
  intros Hs. unfold handled. rewrite (map_fst_filter (fun t => mem_tid t H)). apply ati_filter, Hs.
Qed.

(* ---- the entity loop ---- *)
Definition ids_of (E : list (entity * comps)) : list N := map (fun p => e_id (fst p)) E.

Definition ent_ok (u : universe) (H : list tid) (p : entity * comps) : Prop :=
  valid_entity (fst p) /\ to_bits (fst p) < 18446744073709551616 /\ e_id (fst p) <= MAX_DE_ID /\
  forall t v, In (t, v) (snd p) -> In t H -> val_fits u t v = true.

Lemma row_de_entities_rt u H reader :
  spawn_at_never_panics_stmt -> total_inj u -> (forall t, In t H -> t < 4294967296) ->
  forall E w0 c d0, DInv u w0 -> BInv' c -> c_info c = [] ->
    (forall p, In p E -> ent_ok u H p) -> NoDup (ids_of E) ->
    exists w' d, fst (row_de_entities u H reader w0 c (map (enc_entity H) E) d0) = DOk (w', d) /\ DInv u w' /\
      (forall h vals, In (h, vals) E ->
         exists l, abs w' h = Some l /\ forall t, lookup_first t l = lookup_first t (handled H vals)) /\
      (forall h', ~ In (e_id h') (ids_of E) -> abs w' h' = abs w0 h') /\
      (forall h', In (e_id h') (ids_of E) -> ~ In h' (map fst E) -> abs w' h' = None).
Proof.
  intros SP Hu HH. induction E as [|[h vals] E IH]; intros w0 c d0 D Hc Hci Hok Hnd.
  - cbn [map row_de_entities fst]. exists w0, d0. split; [reflexivity|]. split; [exact D|].
    split; [intros h vals []|]. split; [reflexivity|]. intros h' [].
  - cbn [map row_de_entities]. unfold enc_entity at 1. cbn [fst snd].
    destruct (Hok _ (or_introl eq_refl)) as (Hv & Hbits & Hid & Hvals). cbn [fst snd] in Hv, Hbits, Hid, Hvals.
    cbn [dec_entity]. destruct (N.ltb_spec (to_bits h) 18446744073709551616) as [_|Hge]; [|lia].
    rewrite (roundtrip h Hv), row_ser_entity_eq. cbv beta iota.
    rewrite rd_pref_exact by (rewrite lenN_map; reflexivity).
    destruct (row_de_comps_enc u H (kept_pairs H vals) c d0 Hc) as (c' & d' & Ec & Hc' & Hlk).
    { intros t v Hin. apply In_kept_pairs in Hin as (HtH & Hlf). split; [apply HH, HtH|].
      split; [apply memN_In, HtH|]. apply Hvals; [apply lookup_first_In, Hlf|exact HtH]. }
    rewrite Ec. destruct (N.ltb_spec MAX_DE_ID (e_id h)) as [Hbig|_]; [lia|].
    destruct (spawn_at_step u w0 h (built_bundle (builder_build u c')) SP Hu D (built_bundle_ok u c' Hc') Hv Hid)
      as (w1 & d1 & Es & D1 & _ & (l & Hl & Hll) & Hoth & Hsame).
    rewrite Es. cbn [ids_of map fst] in Hnd. inversion Hnd as [|x y Hni Hnd']; subst.
    destruct (IH w1 (builder_after_put (builder_build u c')) (d' ++ d1) D1 (after_put_binv _) eq_refl)
      as (w' & d & Ed & D' & Hin & Hout & Hgone).
    { intros p Hp. apply Hok. right. exact Hp. }
    { exact Hnd'. }
    exists w', d. split; [exact Ed|]. split; [exact D'|]. split; [|split].
    + intros h2 vals2 [[= <- <-]|Hin2]; [|apply Hin, Hin2].
      exists l. split; [rewrite (Hout h Hni); exact Hl|]. intros t.
      rewrite Hll, built_bundle_lookup by exact Hc'. rewrite Hlk, kept_pairs_last, handled_lookup.
      unfold b_abs. rewrite Hci. cbn [map lookup_first].
      destruct (mem_tid t H); [destruct (lookup_first t vals)|]; reflexivity.
    + intros h' Hni'. cbn [ids_of map fst In] in Hni'. rewrite Hout by tauto. apply Hoth. intros E'. apply Hni'. left.
      symmetry. exact E'.
    + intros h' Hi' Hn'. cbn [ids_of map fst In] in Hi', Hn'.
      destruct (in_dec N.eq_dec (e_id h') (ids_of E)) as [Hi2|Hn2].
      * apply Hgone; [exact Hi2|tauto].
      * rewrite Hout by exact Hn2. destruct Hi' as [Hi'|Hi']; [|contradiction].
        apply Hsame; [symmetry; exact Hi'|]. intros ->. apply Hn'. left. reflexivity.
Qed.

(* component ids travel as u32 in both formats: the context must only handle such ids *)
Definition ctx_u32 (H : list tid) : Prop := forall t, In t H -> t < 4294967296.

Lemma emitted_ent_ok u H w q p :
  WInv u w -> fits w -> serialisable u H w -> In p (emitted w q) -> ent_ok u H p.
Proof.
  intros I F [S1 S2] Hin. destruct p as [h l]. destruct (emitted_handle u w q h l I F Hin) as [Hv Hb].
  apply In_emitted in Hin as (a & r & Ha & Hr & _ & -> & ->). unfold ent_ok. cbn [fst snd].
  split; [exact Hv|]. split; [exact Hb|]. split; [cbn [handle_of e_id]; apply (S2 a r Ha Hr)|].
  intros t v Hin Ht. apply (S1 a r t v Ha Hr Hin Ht).
Qed.

(* what the rebuilt world has to denote, from the three clauses of the decoding loops *)
Lemma rebuilt_copy_spec u H w q w' :
  WInv u w -> fits w -> flushed w -> WInv u w' ->
  (forall h vals, In (h, vals) (emitted w q) ->
     exists l, abs w' h = Some l /\ forall t, lookup_first t l = lookup_first t (handled H vals)) ->
  (forall h', ~ In (e_id h') (ids_of (emitted w q)) -> abs w' h' = None) ->
  (forall h', In (e_id h') (ids_of (emitted w q)) -> ~ In h' (map fst (emitted w q)) -> abs w' h' = None) ->
  forall h, abs w' h = copy_spec H w q h.
Proof.
  intros I F Hf I' Hin Hout Hgone h. unfold copy_spec.
  assert (Hcase : (exists l, In (h, l) (emitted w q)) \/ ~ In h (map fst (emitted w q))).
  { destruct (in_dec entity_dec h (map fst (emitted w q))) as [Hi|Hn]; [left|right; exact Hn].
    apply in_map_iff in Hi as ([h0 l] & E & Hl). cbn [fst] in E. subst h0. exists l. exact Hl. }
  destruct Hcase as [(l & Hl)|Hn].
  - pose proof Hl as Hl'. apply (emitted_spec u w q h l I F Hf) in Hl' as (Ha & Hg & Hs). rewrite Ha, Hs.
    destruct (get_mut (w_ents w) h); [|congruence]. cbn [andb].
    destruct (Hin h l Hl) as (l' & Ha' & Hlk). rewrite Ha'. f_equal.
    apply (sorted_lookup_ext u); [apply (abs_sorted u w' h l' I' Ha')| |exact Hlk].
    apply handled_sorted. apply (abs_sorted u w h l I Ha).
  - assert (Hnone : abs w' h = None).
    { destruct (in_dec N.eq_dec (e_id h) (ids_of (emitted w q))) as [Hi|Hni]; [apply Hgone; assumption|apply Hout, Hni]. }
    rewrite Hnone. destruct (abs w h) as [l|] eqn:Ha; [|reflexivity].
    destruct (get_mut (w_ents w) h) as [lc|] eqn:Hg; [|reflexivity].
    destruct (sat (map fst l) q) eqn:Hs; [|reflexivity]. exfalso. apply Hn.
    assert (Hl : In (h, l) (emitted w q)).
    { apply (emitted_spec u w q h l I F Hf). split; [exact Ha|]. split; [congruence|exact Hs]. }
    apply in_map_iff. exists (h, l). split; [reflexivity|exact Hl].
Qed.

(* C14 round trip, row format: [c14_roundtrip_row_stmt] is false as stated (see
   [c14_roundtrip_row_stmt_false] below: a handled component id >= 2^32 is written but the decoder
   reads ids as u32); it holds for contexts whose ids are u32. *)
Theorem c14_roundtrip_row_weakened :
  spawn_at_never_panics_stmt ->
  forall u H w q reader, total_inj u -> ctx_nodup H -> ctx_u32 H -> WInv u w -> fits w -> flushed w -> serialisable u H w ->
    exists w' d, row_de u H reader (row_ser H w q) = DOk (w', d) /\ WInv u w' /\
                 forall h, abs w' h = copy_spec H w q h.
Proof.
  intros SP u H w q reader Hu _ HH I F Hf S.
  pose proof (lengths_ok_row H w q) as Hlen. rewrite row_ser_eq in Hlen |- *. cbn [lengths_ok] in Hlen.
  apply andb_true_iff in Hlen as [Hlen _]. apply N.eqb_eq in Hlen.
  unfold row_de. rewrite (rd_pref_exact reader _ _ Hlen).
  destruct (row_de_entities_rt u H reader SP Hu HH (emitted w q) world_new common_new [] (world_new_DInv u)
              (binv_empty _ _) eq_refl) as (w' & d & E & D' & Hin & Hout & Hgone).
  { intros p Hp. eapply emitted_ent_ok; eassumption. }
  { unfold ids_of. rewrite emitted_ids. apply (query_iter_nodup u w q I). }
  exists w', d. split; [exact E|]. split; [apply D'|].
  apply (rebuilt_copy_spec u H w q w' I F Hf (proj1 D') Hin); [|exact Hgone].
  intros h' Hn. rewrite (Hout h' Hn). apply (world_new_inv_proof u).
Qed.

(* ========================================================================================== *)
(** * 7. C14: round trip, column format *)

Lemma rd_seq_exact reader n (l : list tok) : n = lenN l -> rd_seq reader n l = Some l.
Proof.
  intros ->. unfold rd_seq. destruct (N.eqb reader 0); [reflexivity|].
  destruct (N.leb_spec (lenN l) (lenN l)) as [_|Hc]; [|lia]. rewrite takeN_all by lia. reflexivity.
Qed.

Lemma dec_all_map {A} (f : tok -> option A) (g : A -> tok) l :
  (forall a, In a l -> f (g a) = Some a) -> dec_all f (map g l) = Some l.
Proof.
  induction l as [|a l IH]; intros Hf; cbn [map dec_all]; [reflexivity|].
  rewrite (Hf a (or_introl eq_refl)), IH; [reflexivity|]. intros b Hb. apply Hf. right. exact Hb.
Qed.

Lemma lenN_filter_le {A} (f : A -> bool) l : lenN (filter f l) <= lenN l.
Proof. induction l as [|x l IH]; cbn [filter lenN]; [lia|]. destruct (f x); cbn [lenN]; lia. Qed.

Lemma pushed_to_notin t ps : ~ In t (map fst ps) -> pushed_to t ps = [].
Proof.
  unfold pushed_to. induction ps as [|[t0 xs] ps IH]; cbn [map concat fst snd In]; intros Hn; [reflexivity|].
  destruct (N.eqb_spec t0 t) as [->|Hne]; [exfalso; apply Hn; left; reflexivity|].
  cbn [app]. apply IH. intros Hi. apply Hn. right. exact Hi.
Qed.

Lemma pushed_to_map (colv : tid -> list val) hs t :
  NoDup hs -> In t hs -> pushed_to t (map (fun t => (t, colv t)) hs) = colv t.
Proof.
  induction hs as [|t0 hs IH]; intros Hnd Hin; [destruct Hin|]. inversion Hnd as [|x y Hni Hnd']; subst.
  unfold pushed_to in *. cbn [map concat fst snd].
  destruct (N.eqb_spec t0 t) as [->|Hne].
  - fold (pushed_to t (map (fun t => (t, colv t)) hs)). rewrite pushed_to_notin; [apply app_nil_r|].
    rewrite map_map. cbn [fst]. rewrite map_id. exact Hni.
  - cbn [app]. apply IH; [exact Hnd'|]. destruct Hin as [E|Hin]; [congruence|exact Hin].
Qed.

(* decoding the columns written for the types [hs]: every push fills its column exactly *)
Lemma col_de_columns_rt u reader n (colv : tid -> list val) hs :
  NoDup hs -> (forall t, In t hs -> lenN (colv t) = n /\ forallb (val_fits u t) (colv t) = true) ->
  forall todo done, hs = done ++ todo ->
    col_de_columns u reader n todo (fst (cb_run (cbatch_new u hs n) (map (fun t => (t, colv t)) done)))
                   (map (fun t => TL n (map TN (colv t))) todo)
    = Some (fst (cb_run (cbatch_new u hs n) (map (fun t => (t, colv t)) hs)), []).
Proof.
  intros Hnd Hcol. induction todo as [|t todo IH]; intros done Ehs.
  - rewrite app_nil_r in Ehs. subst done. reflexivity.
  - cbn [map col_de_columns].
    assert (Hin : In t hs). { rewrite Ehs. apply in_or_app. right. left. reflexivity. }
    destruct (Hcol t Hin) as (Hlen & Hvf).
    rewrite rd_seq_exact by (rewrite lenN_map; symmetry; exact Hlen).
    rewrite dec_all_map by reflexivity. rewrite Hvf. cbn [negb].
    set (ps := map (fun t => (t, colv t)) done).
    pose proof (cinv_run u hs n ps) as Hinv. pose proof (cinv_run u hs n (ps ++ [(t, colv t)])) as Hinv1.
    rewrite cb_run_snoc in Hinv1.
    destruct (cb_run (cbatch_new u hs n) ps) as [b rej0] eqn:Eb. cbn [fst].
    destruct Hinv as (_ & Htg & _ & Hc & _). cbn [fst] in Htg, Hc.
    assert (Hts : In t (dedup_sorted (tsort u hs))) by (apply In_batch_types; exact Hin).
    assert (Hni : ~ In t done).
    { intros Hd. rewrite Ehs in Hnd. apply NoDup_app_inv in Hnd as (_ & _ & Hdisj). apply (Hdisj t Hd). left. reflexivity. }
    assert (Hcur : col_of t (cb_cols b) = Some []).
    { rewrite (Hc t Hts), pushed_to_notin; [rewrite takeN_nil; reflexivity|].
      unfold ps. rewrite map_map. cbn [fst]. rewrite map_id. exact Hni. }
    unfold cb_step in Hinv1. cbn [fst snd] in Hinv1.
    destruct (cbatch_push b t (colv t)) as [[b1 rej]|] eqn:Ep.
    2:{ unfold cbatch_push in Ep. rewrite Hcur in Ep. discriminate Ep. }
    assert (Hrej : rej = []).
    { unfold cbatch_push in Ep. rewrite Hcur in Ep. injection Ep as _ <-. apply dropN_all.
      rewrite Htg. cbn [lenN]. lia. }
    subst rej. destruct Hinv1 as (_ & _ & _ & Hc1 & _). cbn [fst] in Hc1.
    rewrite (Hc1 t Hts), pushed_to_snoc. cbn [fst snd]. rewrite N.eqb_refl.
    rewrite pushed_to_notin by (unfold ps; rewrite map_map; cbn [fst]; rewrite map_id; exact Hni).
    cbn [app]. rewrite lenN_takeN, Hlen, N.min_id, N.ltb_irrefl, N.eqb_refl. cbn [negb]. rewrite andb_false_r.
    specialize (IH (done ++ [t])). rewrite map_app in IH. cbn [map] in IH. fold ps in IH.
    rewrite cb_run_snoc, Eb in IH. unfold cb_step in IH. cbn [fst snd] in IH. rewrite Ep in IH. cbn [fst] in IH.
    apply IH. rewrite <- app_assoc. exact Ehs.
Qed.

(* the batch those pushes build: complete, and row i holds the i-th value of every column *)
Lemma rt_rows u hs n (colv : tid -> list val) :
  total_inj u -> NoDup hs -> (forall t, In t hs -> lenN (colv t) = n) ->
  let b' := fst (cb_run (cbatch_new u hs n) (map (fun t => (t, colv t)) hs)) in
  cbatch_complete b' = true /\
  forall i row, nthN (cbatch_rows b') i = Some row ->
    forall t, lookup_first t row = if mem_tid t hs then nthN (colv t) i else None.
Proof.
  intros Hu Hnd Hlen. cbv zeta. set (ps := map (fun t => (t, colv t)) hs).
  pose proof (cinv_run u hs n ps) as Hinv. pose proof (c12_build_iff_proof u hs n ps) as Hb.
  pose proof (c12_rows_total_inj u hs n ps Hu) as Hr.
  destruct (cb_run (cbatch_new u hs n) ps) as [b rej]. cbn [fst] in *.
  destruct Hinv as (Hty & _). cbn [fst] in Hty. destruct Hb as (Hcomp & _).
  assert (Hc : cbatch_complete b = true).
  { apply Hcomp. intros t Ht. unfold ps. rewrite pushed_to_map by assumption. rewrite (Hlen t Ht). lia. }
  split; [exact Hc|]. destruct (Hr Hc) as (_ & Hrow & _). intros i row Hi t.
  destruct (Hrow i row Hi) as (Hfst & Hlk). unfold mem_tid. destruct (memN t hs) eqn:Em.
  - apply memN_In in Em. rewrite (Hlk t Em). unfold ps. rewrite pushed_to_map by assumption. reflexivity.
  - apply memN_false in Em. apply lookup_first_None. rewrite Hfst, Hty. intros Hin. apply Em.
    apply In_batch_types in Hin. exact Hin.
Qed.

Definition arch_ents (w : world) (a : arch) : list (entity * comps) :=
  map (fun r => (handle_of w (r_id r), r_vals r)) (a_rows a).
Definition colv (a : arch) (t : tid) : list val :=
  map (fun r => match lookup_first t (r_vals r) with Some v => v | None => 0 end) (a_rows a).
Definition arch_hs (H : list tid) (a : arch) : list tid := filter (fun t => mem_tid t (a_types a)) H.

Lemma col_ser_arch_eq H w a :
  col_ser_arch H w a =
  TL 4 [TN (lenN (a_rows a)); TN (lenN (arch_hs H a)); TL (lenN (arch_hs H a)) (map TN (arch_hs H a));
        TL (lenN (arch_hs H a) + 1)
           (TL (lenN (a_rows a)) (map (fun h => TN (to_bits h)) (map fst (arch_ents w a)))
            :: map (fun t => TL (lenN (a_rows a)) (map TN (colv a t))) (arch_hs H a))].
Proof.
  unfold col_ser_arch, arch_hs, arch_ents, colv. cbv zeta.
  assert (E2 : forall l : list tid,
             map (fun t => TL (lenN (a_rows a))
                              (map TN (map (fun r => match lookup_first t (r_vals r) with Some v => v | None => 0 end)
                                           (a_rows a)))) l
             = map (fun t => TL (lenN (a_rows a))
                                (map (fun r => match lookup_first t (r_vals r) with Some v => TN v | None => TN 0 end)
                                     (a_rows a))) l).
  { intros l. apply map_ext. intros t. f_equal. rewrite map_map. apply map_ext. intros r.
    destruct (lookup_first t (r_vals r)); reflexivity. }
  rewrite E2, !map_map. cbn [fst]. reflexivity.
Qed.

Lemma col_de_arch_rt u H reader w a w0 :
  column_batch_at_refines_stmt -> column_batch_at_total_stmt -> total_inj u ->
  NoDup H -> ctx_u32 H -> lenN H < 4294967296 -> DInv u w0 ->
  (forall p, In p (arch_ents w a) -> ent_ok u H p) -> NoDup (ids_of (arch_ents w a)) ->
  (forall r, In r (a_rows a) -> map fst (r_vals r) = a_types a) ->
  exists w1, col_de_arch u H reader w0 (col_ser_arch H w a) = DOk w1 /\ DInv u w1 /\
    (forall h vals, In (h, vals) (arch_ents w a) ->
       exists l, abs w1 h = Some l /\ forall t, lookup_first t l = lookup_first t (handled H vals)) /\
    (forall h', ~ In (e_id h') (ids_of (arch_ents w a)) -> abs w1 h' = abs w0 h') /\
    (forall h', In (e_id h') (ids_of (arch_ents w a)) -> ~ In h' (map fst (arch_ents w a)) -> abs w1 h' = None).
Proof.
  intros CR CT Hu HnH H32 HlH D Hok Hnd Hrt.
  set (hs := arch_hs H a). set (n := lenN (a_rows a)). set (E := arch_ents w a).
  assert (Hn : n < 4294967296).
  { assert (X : lenN (ids_of E) <= MAX_DE_ID + 1).
    { apply pigeon; [exact Hnd|]. intros x Hx. apply in_map_iff in Hx as (p & <- & Hp).
      destruct (Hok p Hp) as (_ & _ & Hid & _). lia. }
    unfold ids_of, E, arch_ents in X. rewrite !lenN_map in X. unfold n, MAX_DE_ID in *. lia. }
  assert (Hc : lenN hs < 4294967296).
  { pose proof (lenN_filter_le (fun t => mem_tid t (a_types a)) H). unfold hs, arch_hs. lia. }
  rewrite col_ser_arch_eq. fold hs n E. unfold col_de_arch.
  rewrite (rd_seq_exact reader 4) by reflexivity. cbv beta iota.
  assert (L4 : forall x1 x2 x3 x4 : tok, N.eqb (lenN [x1; x2; x3; x4]) 4 = true) by reflexivity.
  rewrite L4. cbn [negb]. rewrite andb_false_r.
  rewrite (proj2 (N.ltb_lt _ _) Hn), (proj2 (N.ltb_lt _ _) Hc). cbn [negb orb].
  assert (HhsH : forall t, In t hs -> In t H /\ In t (a_types a)).
  { intros t Ht. apply filter_In in Ht as [Ht Hm]. split; [exact Ht|apply memN_In, Hm]. }
  assert (Hnhs : NoDup hs) by (apply NoDup_filter, HnH).
  rewrite (rd_seq_exact reader (lenN hs)) by (rewrite lenN_map; reflexivity).
  rewrite (dec_all_map dec_u32 TN hs).
  2:{ intros t Ht. cbn [dec_u32]. rewrite (proj2 (N.ltb_lt _ _)); [reflexivity|]. apply H32, HhsH, Ht. }
  assert (Hmem : forallb (fun t => mem_tid t H) hs = true).
  { apply forallb_forall. intros t Ht. apply memN_In. apply HhsH, Ht. }
  rewrite Hmem. cbn [negb].
  rewrite (rd_seq_exact reader (lenN hs + 1)) by (cbn [lenN]; rewrite lenN_map; lia).
  cbv beta iota.
  assert (HlE : lenN (map fst E) = n) by (unfold E, arch_ents; rewrite !lenN_map; reflexivity).
  rewrite (rd_seq_exact reader n) by (rewrite lenN_map; symmetry; exact HlE).
  rewrite (dec_all_map dec_entity (fun h => TN (to_bits h)) (map fst E)).
  2:{ intros h Hh. apply in_map_iff in Hh as (p & <- & Hp). destruct (Hok p Hp) as (Hv & Hb & _).
      cbn [dec_entity]. rewrite (proj2 (N.ltb_lt _ _) Hb). apply roundtrip, Hv. }
  rewrite HlE, N.eqb_refl. cbn [negb].
  assert (Hlook : forall t r, In t hs -> In r (a_rows a) -> exists v, lookup_first t (r_vals r) = Some v).
  { intros t r Ht Hr. destruct (lookup_first t (r_vals r)) as [v|] eqn:El; [eauto|]. exfalso.
    apply lookup_first_None in El. apply El. rewrite (Hrt r Hr). apply HhsH, Ht. }
  assert (Hcolv : forall t, In t hs -> lenN (colv a t) = n /\ forallb (val_fits u t) (colv a t) = true).
  { intros t Ht. unfold colv. split; [apply lenN_map|]. rewrite forallb_map. apply forallb_forall. intros r Hr.
    destruct (Hlook t r Ht Hr) as (v & Hv). rewrite Hv.
    assert (Hp : In (handle_of w (r_id r), r_vals r) (arch_ents w a)).
    { unfold arch_ents. apply in_map_iff. exists r. split; [reflexivity|exact Hr]. }
    destruct (Hok _ Hp) as (_ & _ & _ & Hvf). cbn [snd] in Hvf.
    apply Hvf; [apply lookup_first_In, Hv|apply HhsH, Ht]. }
  pose proof (col_de_columns_rt u reader n (colv a) hs Hnhs Hcolv hs [] eq_refl) as Hcols. cbn [map] in Hcols.
  change (fst (cb_run (cbatch_new u hs n) [])) with (cbatch_new u hs n) in Hcols. rewrite Hcols.
  destruct (rt_rows u hs n (colv a) Hu Hnhs (fun t Ht => proj1 (Hcolv t Ht))) as (Hcomp & Hrows).
  set (b' := fst (cb_run (cbatch_new u hs n) (map (fun t => (t, colv a t)) hs))) in *.
  rewrite andb_false_r, Hcomp. cbn [negb].
  assert (Hids : map e_id (map fst E) = ids_of E) by (unfold ids_of; rewrite map_map; reflexivity).
  rewrite (proj2 (nodup_ids_iff (map fst E))) by (rewrite Hids; exact Hnd). cbn [negb].
  assert (Hsmall : forall h, In h (map fst E) -> e_id h <= MAX_DE_ID).
  { intros h Hh. apply in_map_iff in Hh as (p & <- & Hp). apply (Hok p Hp). }
  destruct (existsb (fun h => N.ltb MAX_DE_ID (e_id h)) (map fst E)) eqn:Eex.
  { exfalso. apply existsb_exists in Eex as (h & Hh & Hlt). apply N.ltb_lt in Hlt. specialize (Hsmall h Hh). lia. }
  destruct (batch_facts u hs n (map (fun t => (t, colv a t)) hs) b' Hu eq_refl Hcomp) as (Hty & Hrl & Hrty).
  destruct (batch_at_step u w0 (map fst E) (cb_types b') (cbatch_rows b') CR CT Hu D Hty Hrty)
    as (w1 & d & Eb & D1 & _ & Hnew & Hout & Hgone).
  { apply Forall_forall. intros h Hh. apply in_map_iff in Hh as (p & <- & Hp). apply (Hok p Hp). }
  { rewrite Hids. exact Hnd. }
  { rewrite Hrl. exact HlE. }
  { exact Hsmall. }
  rewrite Eb. exists w1. split; [reflexivity|]. split; [exact D1|]. rewrite Hids in Hout, Hgone.
  split; [|split; [exact Hout|exact Hgone]].
  intros h vals Hin. unfold E, arch_ents in Hin. apply in_map_iff in Hin as (r & [= <- <-] & Hr).
  apply In_nthN in Hr as (i & Hi). pose proof (nthN_Some_lt _ _ _ Hi) as Hlt. fold n in Hlt.
  destruct (nthN_lt_Some (cbatch_rows b') i) as (row & Hrow); [rewrite Hrl; exact Hlt|].
  exists row. split.
  - apply (Hnew i _ row); [|exact Hrow]. unfold E, arch_ents. rewrite !nthN_map, Hi. reflexivity.
  - intros t. rewrite (Hrows i row Hrow t), handled_lookup. unfold mem_tid.
    destruct (memN t hs) eqn:Em.
    + apply memN_In in Em. destruct (HhsH t Em) as (HtH & _). rewrite (proj2 (memN_In t H) HtH).
      unfold colv. rewrite nthN_map, Hi. cbn [option_map].
      destruct (Hlook t r Em (nthN_In _ _ _ Hi)) as (v & Hv). rewrite Hv. reflexivity.
    + destruct (memN t H) eqn:EmH; [|reflexivity]. symmetry. apply lookup_first_None.
      rewrite (Hrt r (nthN_In _ _ _ Hi)). intros Hta. apply memN_false in Em. apply Em.
      unfold hs, arch_hs. apply filter_In. split; [apply memN_In, EmH|apply memN_In, Hta].
Qed.

Definition archs_ents (w : world) (A : list arch) : list (entity * comps) := concat (map (arch_ents w) A).

Lemma ids_of_app E1 E2 : ids_of (E1 ++ E2) = ids_of E1 ++ ids_of E2.
Proof. unfold ids_of. apply map_app. Qed.

Definition arch_ok (u : universe) (H : list tid) (w : world) (a : arch) : Prop :=
  (forall p, In p (arch_ents w a) -> ent_ok u H p) /\
  (forall r, In r (a_rows a) -> map fst (r_vals r) = a_types a).

Lemma col_de_archs_rt u H reader w :
  column_batch_at_refines_stmt -> column_batch_at_total_stmt -> total_inj u ->
  NoDup H -> ctx_u32 H -> lenN H < 4294967296 ->
  forall A w0, DInv u w0 -> (forall a, In a A -> arch_ok u H w a) -> NoDup (ids_of (archs_ents w A)) ->
  exists w', col_de_archs u H reader w0 (map (col_ser_arch H w) A) = DOk w' /\ DInv u w' /\
    (forall h vals, In (h, vals) (archs_ents w A) ->
       exists l, abs w' h = Some l /\ forall t, lookup_first t l = lookup_first t (handled H vals)) /\
    (forall h', ~ In (e_id h') (ids_of (archs_ents w A)) -> abs w' h' = abs w0 h') /\
    (forall h', In (e_id h') (ids_of (archs_ents w A)) -> ~ In h' (map fst (archs_ents w A)) -> abs w' h' = None).
Proof.
  intros CR CT Hu HnH H32 HlH. induction A as [|a A IH]; intros w0 D Hok Hnd.
  - cbn [map col_de_archs archs_ents concat]. exists w0. split; [reflexivity|]. split; [exact D|].
    split; [intros h vals []|]. split; [reflexivity|]. intros h' [].
  - unfold archs_ents in *. cbn [map concat col_de_archs] in *. rewrite ids_of_app in Hnd.
    apply NoDup_app_inv in Hnd as (Hnd1 & Hnd2 & Hdisj).
    destruct (Hok a (or_introl eq_refl)) as (Hoka & Hrt).
    destruct (col_de_arch_rt u H reader w a w0 CR CT Hu HnH H32 HlH D Hoka Hnd1 Hrt)
      as (w1 & E1 & D1 & Hin1 & Hout1 & Hgone1).
    rewrite E1.
    destruct (IH w1 D1 (fun a' Ha' => Hok a' (or_intror Ha')) Hnd2) as (w' & E' & D' & Hin & Hout & Hgone).
    exists w'. split; [exact E'|]. split; [exact D'|]. split; [|split].
    + intros h vals Hi. apply in_app_or in Hi as [Hi|Hi]; [|apply Hin, Hi].
      destruct (Hin1 h vals Hi) as (l & Hl & Hlk). exists l. split; [|exact Hlk]. rewrite Hout; [exact Hl|].
      intros Hc. apply (Hdisj (e_id h)); [|exact Hc]. unfold ids_of. apply in_map_iff. exists (h, vals). split; [reflexivity|exact Hi].
    + intros h' Hn. rewrite ids_of_app in Hn. rewrite Hout, Hout1; [reflexivity| |]; intros Hc; apply Hn, in_or_app; tauto.
    + intros h' Hi Hn. rewrite ids_of_app in Hi. rewrite map_app in Hn.
      destruct (in_dec N.eq_dec (e_id h') (ids_of (concat (map (arch_ents w) A)))) as [Hi2|Hn2].
      * apply Hgone; [exact Hi2|]. intros Hc. apply Hn, in_or_app. right. exact Hc.
      * rewrite Hout by exact Hn2. apply in_app_or in Hi as [Hi|Hi]; [|contradiction].
        apply Hgone1; [exact Hi|]. intros Hc. apply Hn, in_or_app. left. exact Hc.
Qed.

Definition col_keep (q : query) (a : arch) : bool :=
  match a_rows a with [] => false | _ => match access (a_types a) q with Some _ => true | None => false end end.

Lemma emitted_filter w q : emitted w q = archs_ents w (filter (col_keep q) (w_archs w)).
Proof.
  unfold emitted, archs_ents. induction (w_archs w) as [|a la IH]; cbn [map concat filter]; [reflexivity|].
  rewrite IH. destruct (col_keep q a) eqn:Ek; unfold col_keep in Ek; cbn [map concat];
    try change (arch_ents w a) with (map (fun r => (handle_of w (r_id r), r_vals r)) (a_rows a)).
  - destruct (a_rows a); [discriminate|]. destruct (access (a_types a) q); [reflexivity|discriminate].
  - destruct (a_rows a); destruct (access (a_types a) q); try discriminate; reflexivity.
Qed.

Lemma col_ser_eq H w q :
  col_ser H w q = TL (lenN (filter (col_keep q) (w_archs w))) (map (col_ser_arch H w) (filter (col_keep q) (w_archs w))).
Proof. reflexivity. Qed.

(* C14 round trip, column format: [c14_roundtrip_col_stmt] is false as stated for the same reason as
   the row format (component ids travel as u32, see [c14_roundtrip_col_stmt_false]); in addition the
   component count of an archetype is read as a u32, so the context must handle fewer than 2^32 types. *)
Theorem c14_roundtrip_col_weakened :
  column_batch_at_refines_stmt -> column_batch_at_total_stmt ->
  forall u H w q reader, total_inj u -> ctx_nodup H -> ctx_u32 H -> lenN H < 4294967296 ->
    WInv u w -> fits w -> flushed w -> serialisable u H w ->
    exists w', col_de u H reader (col_ser H w q) = DOk w' /\ WInv u w' /\
               forall h, abs w' h = copy_spec H w q h.
Proof.
  intros CR CT u H w q reader Hu HnH H32 HlH I F Hf S. rewrite col_ser_eq. unfold col_de.
  rewrite rd_pref_exact by (rewrite lenN_map; reflexivity).
  set (A := filter (col_keep q) (w_archs w)).
  assert (HE : emitted w q = archs_ents w A) by apply emitted_filter.
  destruct (col_de_archs_rt u H reader w CR CT Hu HnH H32 HlH A world_new (world_new_DInv u))
    as (w' & E & D' & Hin & Hout & Hgone).
  { intros a Ha0. pose proof Ha0 as Ha. apply filter_In in Ha as [Ha _]. split.
    - intros p Hp. apply (emitted_ent_ok u H w q p I F S). rewrite HE. unfold archs_ents. apply in_concat.
      exists (arch_ents w a). split; [apply in_map, Ha0|exact Hp].
    - intros r Hr. apply (wi_rowtypes _ _ I a r Ha Hr). }
  { rewrite <- HE. unfold ids_of. rewrite emitted_ids. apply (query_iter_nodup u w q I). }
  rewrite <- HE in Hin, Hout, Hgone.
  exists w'. split; [exact E|]. split; [apply D'|].
  apply (rebuilt_copy_spec u H w q w' I F Hf (proj1 D') Hin); [|exact Hgone].
  intros h' Hn. rewrite (Hout h' Hn). apply (world_new_inv_proof u).
Qed.

(* ========================================================================================== *)
(** * 8. the round-trip statements are false as stated: a handled component id that is not a u32 *)

Definition cex_u : universe := [].
Definition cex_t : tid := 4294967296.
Definition cex_b : bundle := {| b_key := None; b_items := [(cex_t, 7)] |}.
Definition cex_w : world :=
  match w_spawn cex_u world_new cex_b with Done (w, _) => w | Panic _ => world_new end.

(* the serialisers write the id 2^32; both decoders read component ids as u32 and report an error *)
Lemma cex_row_err reader : reader = 0 \/ reader = 1 ->
  row_de cex_u [cex_t] reader (row_ser [cex_t] cex_w (QTup [])) = DErr.
Proof. intros [->| ->]; vm_compute; reflexivity. Qed.

Lemma cex_col_err reader : reader = 0 \/ reader = 1 ->
  col_de cex_u [cex_t] reader (col_ser [cex_t] cex_w (QTup [])) = DErr.
Proof. intros [->| ->]; vm_compute; reflexivity. Qed.

Lemma cex_total_inj : total_inj cex_u.
Proof.
  intros a b. unfold tcmp, info_of, cex_u. cbn [nthN ti_align ti_rank]. rewrite N.compare_refl.
  intros E. apply N.compare_eq in E. lia.
Qed.

Lemma cex_premises :
  ctx_nodup [cex_t] /\ WInv cex_u cex_w /\ fits cex_w /\ flushed cex_w /\ serialisable cex_u [cex_t] cex_w.
Proof.
  assert (Es : w_spawn cex_u world_new cex_b = Done (cex_w, {| e_id := 0; e_gen := 1 |})) by (vm_compute; reflexivity).
  assert (F0 : fits world_new) by (vm_compute; reflexivity).
  assert (F1 : fits cex_w) by (vm_compute; reflexivity).
  assert (Hb : bundle_ok cex_b).
  { split; [|intros k Hk; discriminate Hk]. cbn. constructor; [intros []|constructor]. }
  destruct (spawn_refines_proof cex_u world_new cex_b cex_w _ cex_total_inj (proj1 (world_new_inv_proof cex_u)) F0 Hb Es F1)
    as (I & Hf & _).
  split; [constructor; [intros []|constructor]|]. split; [exact I|]. split; [exact F1|]. split; [exact Hf|].
  split.
  - intros a r t v Ha Hr Hv _. vm_compute in Ha. destruct Ha as [<-|[<-|[]]]; cbn [a_rows In] in Hr; [destruct Hr|].
    destruct Hr as [<-|[]]. cbn [r_vals In] in Hv. destruct Hv as [[= <- <-]|[]]. vm_compute. reflexivity.
  - intros a r Ha Hr. vm_compute in Ha. destruct Ha as [<-|[<-|[]]]; cbn [a_rows In] in Hr; [destruct Hr|].
    destruct Hr as [<-|[]]. vm_compute. discriminate.
Qed.

Theorem c14_roundtrip_row_stmt_false : ~ c14_roundtrip_row_anyid_stmt.
Proof.
  intros S. destruct cex_premises as (Hc & I & F & Hf & Hs).
  destruct (S cex_u [cex_t] cex_w (QTup []) 0 cex_total_inj Hc I F Hf Hs) as (w' & d & E & _).
  rewrite cex_row_err in E by (left; reflexivity). discriminate E.
Qed.

Theorem c14_roundtrip_col_stmt_false : ~ c14_roundtrip_col_anyid_stmt.
Proof.
  intros S. destruct cex_premises as (Hc & I & F & Hf & Hs).
  destruct (S cex_u [cex_t] cex_w (QTup []) 0 cex_total_inj Hc I F Hf Hs) as (w' & E & _).
  rewrite cex_col_err in E by (left; reflexivity). discriminate E.
Qed.

Print Assumptions c14_lengths_proof.
Print Assumptions c14_satisfying_proof.
Print Assumptions c15_total_row_from.
Print Assumptions c15_total_col_from.
Print Assumptions c14_roundtrip_row_weakened.
Print Assumptions c14_roundtrip_col_weakened.
Print Assumptions c14_roundtrip_row_stmt_false.
Print Assumptions c14_roundtrip_col_stmt_false.
