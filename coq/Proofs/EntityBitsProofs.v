From Coq Require Import List NArith ZArith Lia ZifyBool ZifyN.
From HecsV Require Import Model.EntityBits.
Import ListNotations.
Open Scope N_scope.

Ltac Zify.zify_post_hook ::= Z.div_mod_to_equations.

Lemma W32_pow : W32 = 2 ^ 32. Proof. reflexivity. Qed.
Lemma W64_pow : W64 = 2 ^ 64. Proof. reflexivity. Qed.
Lemma W32_ones : W32 - 1 = N.ones 32. Proof. reflexivity. Qed.

Lemma land_mask32 x : N.land x (W32 - 1) = x mod W32.
Proof. rewrite W32_ones, N.land_ones. reflexivity. Qed.

Lemma shiftr32 x : N.shiftr x 32 = x / W32.
Proof. rewrite N.shiftr_div_pow2. reflexivity. Qed.

(* OR of disjoint halves is addition *)
Lemma lor_halves g i : i < W32 -> N.lor (N.shiftl g 32) i = g * W32 + i.
Proof.
  intros Hi. rewrite N.shiftl_mul_pow2. change (2 ^ 32) with W32.
  rewrite <- N.lxor_lor.
  - rewrite <- N.add_nocarry_lxor; [reflexivity|].
    apply N.bits_inj; intro n. rewrite N.land_spec, N.bits_0.
    destruct (N.ltb_spec n 32) as [Hn|Hn].
    + rewrite W32_pow, N.mul_pow2_bits_low by assumption. reflexivity.
    + rewrite Bool.andb_comm.
      destruct (N.eq_dec i 0) as [->|Hne]; [rewrite N.bits_0; reflexivity|].
      rewrite (N.bits_above_log2 i n); [reflexivity|].
      apply N.log2_lt_pow2; [lia|].
      apply N.lt_le_trans with (2 ^ 32); [exact Hi|].
      apply N.pow_le_mono_r; lia.
  - apply N.bits_inj; intro n. rewrite N.land_spec, N.bits_0.
    destruct (N.ltb_spec n 32) as [Hn|Hn].
    + rewrite W32_pow, N.mul_pow2_bits_low by assumption. reflexivity.
    + rewrite Bool.andb_comm.
      destruct (N.eq_dec i 0) as [->|Hne]; [rewrite N.bits_0; reflexivity|].
      rewrite (N.bits_above_log2 i n); [reflexivity|].
      apply N.log2_lt_pow2; [lia|].
      apply N.lt_le_trans with (2 ^ 32); [exact Hi|].
      apply N.pow_le_mono_r; lia.
Qed.

Lemma to_bits_arith e : e_id e < W32 -> to_bits e = e_gen e * W32 + e_id e.
Proof. intros H. unfold to_bits. apply lor_halves; assumption. Qed.

Lemma from_bits_arith b :
  from_bits b =
  if N.eqb ((b / W32) mod W32) 0 then None
  else Some {| e_id := b mod W32; e_gen := (b / W32) mod W32 |}.
Proof. unfold from_bits. rewrite !land_mask32, shiftr32. reflexivity. Qed.

Lemma roundtrip e : valid_entity e -> from_bits (to_bits e) = Some e.
Proof.
  intros [Hi [Hg0 Hg]]. rewrite from_bits_arith, to_bits_arith by assumption.
  destruct e as [i g]; cbn [e_id e_gen] in *. unfold W32 in *.
  assert (H1 : (g * 4294967296 + i) / 4294967296 = g) by lia.
  assert (H2 : (g * 4294967296 + i) mod 4294967296 = i) by lia.
  rewrite H1, H2.
  assert (H3 : g mod 4294967296 = g) by lia. rewrite H3.
  destruct (N.eqb_spec g 0); [lia|reflexivity].
Qed.

Lemma from_bits_none b : b < W64 -> (from_bits b = None <-> b / W32 = 0).
Proof.
  intros Hb. rewrite from_bits_arith. unfold W32, W64 in *.
  assert (H : (b / 4294967296) mod 4294967296 = b / 4294967296) by lia.
  rewrite H. destruct (N.eqb_spec (b / 4294967296) 0); split; intros; try lia; try discriminate; auto.
Qed.

Lemma from_bits_valid b e : from_bits b = Some e -> valid_entity e.
Proof.
  rewrite from_bits_arith. unfold W32 in *.
  destruct (N.eqb_spec ((b / 4294967296) mod 4294967296) 0) as [|Hne]; [discriminate|].
  intros [= <-]. unfold valid_entity; cbn [e_id e_gen]. unfold W32. lia.
Qed.

Lemma from_to b e : b < W64 -> from_bits b = Some e -> to_bits e = b.
Proof.
  intros Hb H. pose proof (from_bits_valid _ _ H) as [Hi _].
  rewrite to_bits_arith by assumption.
  rewrite from_bits_arith in H. unfold W32, W64 in *.
  destruct (N.eqb_spec ((b / 4294967296) mod 4294967296) 0) as [|Hne]; [discriminate|].
  injection H as <-. cbn [e_id e_gen]. lia.
Qed.

Lemma to_bits_nonzero e : valid_entity e -> to_bits e <> 0 /\ to_bits e < W64.
Proof.
  intros [Hi [Hg0 Hg]]. rewrite to_bits_arith by assumption. unfold W32, W64 in *. lia.
Qed.

Lemma to_bits_inj e1 e2 : valid_entity e1 -> valid_entity e2 -> to_bits e1 = to_bits e2 -> e1 = e2.
Proof.
  intros [Hi1 [_ Hg1]] [Hi2 [_ Hg2]]. rewrite !to_bits_arith by assumption.
  destruct e1 as [i1 g1], e2 as [i2 g2]; cbn [e_id e_gen] in *. unfold W32 in *.
  intros H. assert (g1 = g2) by lia. assert (i1 = i2) by lia. subst. reflexivity.
Qed.

Lemma entity_eqb_spec a b : entity_eqb a b = true <-> a = b.
Proof.
  destruct a as [i g], b as [j h]; unfold entity_eqb; cbn [e_id e_gen].
  rewrite Bool.andb_true_iff, !N.eqb_eq. split; [intros [-> ->]; reflexivity|intros [= -> ->]; auto].
Qed.

(* equality of handles = equality of bit patterns; order = lexicographic (id, generation) *)
Lemma eq_iff_bits a b : valid_entity a -> valid_entity b -> (entity_eqb a b = true <-> to_bits a = to_bits b).
Proof.
  intros Ha Hb. rewrite entity_eqb_spec. split; [intros ->; reflexivity|apply to_bits_inj; assumption].
Qed.

Lemma cmp_eq_iff a b : entity_cmp a b = Eq <-> a = b.
Proof.
  destruct a as [i g], b as [j h]; unfold entity_cmp; cbn [e_id e_gen].
  destruct (N.compare_spec i j) as [->|Hl|Hl].
  - rewrite N.compare_eq_iff. split; [intros ->; reflexivity|intros [= ->]; reflexivity].
  - split; [discriminate|intros [= -> _]; lia].
  - split; [discriminate|intros [= -> _]; lia].
Qed.

Lemma cmp_lex a b :
  entity_cmp a b = Lt <-> (e_id a < e_id b \/ (e_id a = e_id b /\ e_gen a < e_gen b)).
Proof.
  unfold entity_cmp. destruct (N.compare_spec (e_id a) (e_id b)) as [He|Hl|Hl].
  - rewrite N.compare_lt_iff. split; [intros; right; auto|intros [?|[_ ?]]; [lia|assumption]].
  - split; [intros; left; assumption|reflexivity].
  - split; [discriminate|intros [?|[? _]]; lia].
Qed.

Lemma cmp_antisym a b : entity_cmp b a = CompOpp (entity_cmp a b).
Proof.
  unfold entity_cmp. rewrite (N.compare_antisym (e_id a) (e_id b)).
  destruct (N.compare (e_id a) (e_id b)); cbn [CompOpp]; [apply N.compare_antisym|reflexivity|reflexivity].
Qed.

Lemma cmp_trans a b c : entity_cmp a b = Lt -> entity_cmp b c = Lt -> entity_cmp a c = Lt.
Proof. rewrite !cmp_lex. lia. Qed.

Lemma dangling_valid : valid_entity DANGLING.
Proof. unfold valid_entity, DANGLING, W32; cbn [e_id e_gen]. lia. Qed.
