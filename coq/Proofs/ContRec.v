(* CommandBuffer recording (C11): the layout invariant of a recorded buffer and what follows from it.
   Used by Proofs/ContProofs2.v. *)
From Coq Require Import List NArith ZArith Bool Lia ZifyBool ZifyNat ZifyN Permutation.
From HecsV Require Import Base.ListN Base.ListNFacts Base.ListNMore Model.EntityBits Model.Types Model.Entities
  Model.World Model.Containers Proofs.WorldSpec Proofs.WorldSpec2 Proofs.ContSpec Proofs.MergeSpec Proofs.MergeProofs.
Import ListNotations.
Open Scope N_scope.

Definition kv (r : crec) : tid * val := (cr_t r, cr_v r).
Definition live (r : crec) : Prop := cr_live r = true.

Lemma total_inj_rank_inj' u l : total_inj u -> rank_inj u l.
Proof. intros H a b _ _. apply H. Qed.

(* ---- the insertion sort of a recorded range ---- *)
Lemma insert_crec_perm u x l : Permutation (insert_crec u x l) (x :: l).
Proof.
  induction l as [|y t IH]; cbn [insert_crec]; [reflexivity|].
  destruct (tle u (cr_t x) (cr_t y)); [reflexivity|].
  rewrite IH. apply perm_swap.
Qed.

Lemma sort_crec_perm u l : Permutation (fold_right (insert_crec u) [] l) l.
Proof.
  induction l as [|x t IH]; cbn [fold_right]; [reflexivity|].
  rewrite insert_crec_perm. constructor. exact IH.
Qed.

Lemma map_cr_t_insert u x l : map cr_t (insert_crec u x l) = tinsert u (cr_t x) (map cr_t l).
Proof.
  induction l as [|y t IH]; cbn [insert_crec map tinsert]; [reflexivity|].
  destruct (tle u (cr_t x) (cr_t y)); cbn [map]; [reflexivity|]. rewrite IH. reflexivity.
Qed.

Lemma map_cr_t_sort u l : map cr_t (fold_right (insert_crec u) [] l) = tsort u (map cr_t l).
Proof.
  induction l as [|x t IH]; cbn [fold_right map]; [reflexivity|].
  rewrite map_cr_t_insert, IH. reflexivity.
Qed.

Lemma cm_add_all_spec u : forall items a a' recs ev,
  cm_add_all u a items = (a', recs, ev) -> map kv recs = items /\ Forall live recs.
Proof.
  induction items as [|[t v] r IH]; intros a a' recs ev H; cbn [cm_add_all] in H.
  - injection H as <- <- <-. split; constructor.
  - destruct (arena_add u a t) as [[off a1] ev1].
    destruct (cm_add_all u a1 r) as [[a2 recs2] ev2] eqn:E.
    injection H as <- <- <-. destruct (IH _ _ _ _ E) as (H1 & H2).
    split; [cbn [map kv cr_t cr_v]; rewrite H1; reflexivity|].
    constructor; [reflexivity|exact H2].
Qed.

Lemma map_fst_kv l : map fst (map kv l) = map cr_t l.
Proof. rewrite map_map. reflexivity. Qed.

(* what a recorded range is, relative to the bundle it was recorded from *)
Definition slice_ok (u : universe) (recs : list crec) (items : comps) : Prop :=
  Permutation (map kv recs) items /\ Forall live recs /\
  (NoDup (map fst items) -> total_inj u -> assert_type_info u (map cr_t recs) = 0).

Lemma slice_ok_nil u : slice_ok u [] [].
Proof. split; [reflexivity|]. split; [constructor|]. intros _ _. reflexivity. Qed.

Lemma recorded_slice_ok u a items a' recs ev :
  cm_add_all u a items = (a', recs, ev) -> slice_ok u (fold_right (insert_crec u) [] recs) items.
Proof.
  intros H. apply cm_add_all_spec in H as (H1 & H2).
  split; [|split].
  - rewrite <- H1. apply Permutation_map. apply sort_crec_perm.
  - eapply Permutation_Forall; [apply Permutation_sym, sort_crec_perm|exact H2].
  - intros Hnd Hu. rewrite map_cr_t_sort. rewrite <- H1 in Hnd. rewrite map_fst_kv in Hnd.
    apply tsort_sorted_stmt_proof; [apply total_inj_rank_inj'; exact Hu|exact Hnd].
Qed.

(* ---- commands vs recorded operations ---- *)
Definition tag_match (x : cmd) (o : rop) : Prop :=
  match x, o with
  | CSpawnOrInsert None _ _, RSpawn _ => True
  | CSpawnOrInsert (Some h) _ _, RInsert h' _ => h = h'
  | CRemove h k ts, RRemove h' k' ts' => h = h' /\ k = k' /\ ts = ts'
  | CDespawn h, RDespawn h' => h = h'
  | _, _ => False
  end.

Definition range_at (x : cmd) (off : N) (recs : list crec) : Prop :=
  match x with
  | CSpawnOrInsert _ s n => s = off /\ n = lenN recs
  | _ => recs = []
  end.

Definition cmd_rel (u : universe) (x : cmd) (o : rop) (recs : list crec) : Prop :=
  tag_match x o /\ slice_ok u recs (rop_items o).

(* the ranges of [cmds] tile [comps] consecutively, starting at offset [off] *)
Fixpoint wf (u : universe) (cmds : list cmd) (ops : list rop) (off : N) (comps : list crec) : Prop :=
  match cmds, ops with
  | [], [] => comps = []
  | x :: cs, o :: os =>
      exists recs rest, comps = recs ++ rest /\ range_at x off recs /\ cmd_rel u x o recs /\
                        wf u cs os (off + lenN recs) rest
  | _, _ => False
  end.

Lemma wf_snoc u x o recs : forall cmds ops off comps,
  wf u cmds ops off comps -> range_at x (off + lenN comps) recs -> cmd_rel u x o recs ->
  wf u (cmds ++ [x]) (ops ++ [o]) off (comps ++ recs).
Proof.
  induction cmds as [|y cs IH]; intros [|p os] off comps W R C; cbn [wf app] in *; try contradiction.
  - subst comps. exists recs, []. cbn [lenN] in R. rewrite N.add_0_r in R. rewrite app_nil_r. cbn [app].
    repeat split; try assumption; apply C.
  - destruct W as (recs1 & rest & -> & R1 & C1 & W).
    exists recs1, (rest ++ recs). split; [rewrite app_assoc; reflexivity|].
    split; [exact R1|]. split; [exact C1|]. apply IH; [exact W| |exact C].
    rewrite lenN_app in R. rewrite <- N.add_assoc. exact R.
Qed.

Lemma record_wf u c ops o :
  wf u (cm_cmds c) ops 0 (cm_comps c) ->
  wf u (cm_cmds (record u c o)) (ops ++ [o]) 0 (cm_comps (record u c o)).
Proof.
  intros W. destruct o as [b|h b|h k ts|h]; cbn [record].
  - unfold cm_record. destruct (cm_add_all u (cm_arena c) (b_items b)) as [[a' recs] ev] eqn:E.
    cbn [fst cm_cmds cm_comps]. apply wf_snoc; [exact W|cbn [range_at]; split; [lia|reflexivity]|].
    split; [exact I|]. cbn [rop_items]. eapply recorded_slice_ok. exact E.
  - unfold cm_record. destruct (cm_add_all u (cm_arena c) (b_items b)) as [[a' recs] ev] eqn:E.
    cbn [fst cm_cmds cm_comps]. apply wf_snoc; [exact W|cbn [range_at]; split; [lia|reflexivity]|].
    split; [reflexivity|]. cbn [rop_items]. eapply recorded_slice_ok. exact E.
  - unfold cm_push_cmd. cbn [cm_cmds cm_comps]. rewrite <- (app_nil_r (cm_comps c)).
    apply wf_snoc; [exact W|reflexivity|]. split; [cbn; auto|apply slice_ok_nil].
  - unfold cm_push_cmd. cbn [cm_cmds cm_comps]. rewrite <- (app_nil_r (cm_comps c)).
    apply wf_snoc; [exact W|reflexivity|]. split; [reflexivity|apply slice_ok_nil].
Qed.

Lemma recorded_wf u ops :
  let c := fold_left (record u) ops cmdbuf_new in wf u (cm_cmds c) ops 0 (cm_comps c).
Proof.
  induction ops as [|o ops IH] using rev_ind; [reflexivity|].
  cbn zeta in *. rewrite fold_left_app. cbn [fold_left]. apply record_wf. exact IH.
Qed.

(* the arena only changes its cursor and size through recording; cm_run keeps it *)
Definition slice_recs (comps : list crec) (x : cmd) : list crec :=
  match x with CSpawnOrInsert _ s n => takeN n (dropN s comps) | _ => [] end.

Lemma slice_of_recs c x : slice_of c x = map kv (slice_recs (cm_comps c) x).
Proof. destruct x; reflexivity. Qed.

Lemma slice_recs_at x off recs pre rest :
  range_at x off recs -> lenN pre = off -> slice_recs (pre ++ recs ++ rest) x = recs.
Proof.
  intros R Hp. destruct x as [tg s n|h k ts|h]; cbn [range_at slice_recs] in *; [|auto|auto].
  destruct R as (-> & ->). rewrite <- Hp, dropN_app_exact, takeN_app_exact. reflexivity.
Qed.

Lemma wf_slices u : forall cmds ops off comps,
  wf u cmds ops off comps -> forall pre, lenN pre = off ->
  Forall2 (fun x o => cmd_rel u x o (slice_recs (pre ++ comps) x)) cmds ops /\
  comps = concat (map (slice_recs (pre ++ comps)) cmds).
Proof.
  induction cmds as [|x cs IH]; intros [|o os] off comps W pre Hp; cbn [wf] in W; try contradiction.
  - subst comps. split; [constructor|reflexivity].
  - destruct W as (recs & rest & -> & R & C & W).
    destruct (IH _ _ _ W (pre ++ recs)) as (F & Hc); [rewrite lenN_app; lia|].
    rewrite <- app_assoc in F, Hc.
    split.
    + constructor; [|exact F]. rewrite (slice_recs_at _ _ _ _ _ R Hp). exact C.
    + cbn [map concat]. rewrite (slice_recs_at _ _ _ _ _ R Hp). rewrite <- Hc. reflexivity.
Qed.

Lemma wf_live u : forall cmds ops off comps, wf u cmds ops off comps -> Forall live comps.
Proof.
  induction cmds as [|x cs IH]; intros [|o os] off comps W; cbn [wf] in W; try contradiction.
  - subst. constructor.
  - destruct W as (recs & rest & -> & R & C & W). apply Forall_app. split; [apply C|eapply IH; exact W].
Qed.

Lemma wf_perm u : forall cmds ops off comps,
  wf u cmds ops off comps -> Permutation (map kv comps) (concat (map rop_items ops)).
Proof.
  induction cmds as [|x cs IH]; intros [|o os] off comps W; cbn [wf] in W; try contradiction.
  - subst. reflexivity.
  - destruct W as (recs & rest & -> & R & C & W). rewrite map_app. cbn [map concat].
    apply Permutation_app; [apply C|eapply IH; exact W].
Qed.

Lemma wf_len u : forall cmds ops off comps, wf u cmds ops off comps -> lenN cmds = lenN ops.
Proof.
  induction cmds as [|x cs IH]; intros [|o os] off comps W; cbn [wf] in W; try contradiction.
  - reflexivity.
  - destruct W as (recs & rest & -> & R & C & W). cbn [lenN]. f_equal. eapply IH. exact W.
Qed.

Lemma Forall2_nthN {A B} (R : A -> B -> Prop) : forall l1 l2, Forall2 R l1 l2 ->
  forall i x y, nthN l1 i = Some x -> nthN l2 i = Some y -> R x y.
Proof.
  induction 1 as [|a b l1 l2 Hab F IH]; intros i x y H1 H2; cbn [nthN] in *; [discriminate|].
  destruct (N.eqb i 0); [injection H1 as <-; injection H2 as <-; exact Hab|].
  eapply IH; eassumption.
Qed.

Lemma live_values_all_live l :
  Forall live l -> concat (map (fun r => if cr_live r then [(cr_t r, cr_v r)] else []) l) = map kv l.
Proof.
  induction 1 as [|r t Hr F IH]; [reflexivity|]. cbn [map concat]. unfold live in Hr. rewrite Hr, IH. reflexivity.
Qed.

Lemma live_values_dead l :
  Forall (fun r => cr_live r = false) l -> concat (map (fun r => if cr_live r then [(cr_t r, cr_v r)] else []) l) = [].
Proof.
  induction 1 as [|r t Hr F IH]; [reflexivity|]. cbn [map concat]. rewrite Hr, IH. reflexivity.
Qed.

(* ---- the first two theorems ---- *)
Lemma c11_ranges_holds : c11_ranges_stmt.
Proof.
  intros u ops c. pose proof (recorded_wf u ops) as W. cbn zeta in W. fold c in W.
  destruct (wf_slices _ _ _ _ _ W [] eq_refl) as (F & Hc). cbn [app] in F, Hc.
  split; [eapply wf_len; exact W|]. split; [|split].
  - intros i x o Hx Ho. pose proof (Forall2_nthN _ _ _ F _ _ _ Hx Ho) as (T & P & L & S).
    rewrite slice_of_recs. split; [exact P|]. split.
    + intros Hnd Hu. rewrite map_fst_kv. apply S; assumption.
    + destruct x as [[h|] s n|h k ts|h], o as [b|h' b|h' k' ts'|h']; cbn [tag_match] in T; try contradiction; auto.
  - rewrite Hc at 1. rewrite concat_map, map_map. f_equal. apply map_ext. intros x. symmetry. apply slice_of_recs.
  - eapply wf_live. exact W.
Qed.

Lemma c11_clear_holds : c11_clear_stmt.
Proof.
  intros u ops c. pose proof (recorded_wf u ops) as W. cbn zeta in W. fold c in W.
  split; [|split; reflexivity]. cbn [cm_clear snd]. unfold cm_live_values.
  rewrite live_values_all_live by (eapply wf_live; exact W). eapply wf_perm. exact W.
Qed.
