(* Statements for C14 (serialise-then-deserialise reproduces the world) and C15 (deserialising
   malformed data fails cleanly) over Model/Serde.v.  Statements only. *)
From Coq Require Import List NArith ZArith Bool Lia.
From HecsV Require Import Base.ListN Base.ListNFacts Model.EntityBits Model.Types Model.Entities Model.World Model.Query
  Model.Containers Model.Serde.
From HecsV Require Import Proofs.WorldSpec Proofs.WorldSpec3 Proofs.QuerySpec.
Import ListNotations.
Open Scope N_scope.

(* the user's context handles the types H: distinct, each at most once *)
Definition ctx_nodup (H : list tid) : Prop := NoDup H.
(* component ids and per-archetype component counts travel as u32 in both formats (the harness's
   ComponentId is a u32, as in the documented example): round trips are claimed for such contexts *)
Definition ctx_ok (H : list tid) : Prop :=
  NoDup H /\ (forall t, In t H -> t < 4294967296) /\ lenN H < 4294967296.

(* what a faithful copy of [w] restricted to the handled types and to the entities satisfying q denotes *)
Definition handled (H : list tid) (l : comps) : comps := filter (fun c => mem_tid (fst c) H) l.
Definition copy_spec (H : list tid) (w : world) (q : query) (h : entity) : option comps :=
  match abs w h with
  | Some l => if match get_mut (w_ents w) h with Some _ => true | None => false end && sat (map fst l) q
              then Some (handled H l) else None
  | None => None
  end.

(* the world can be written by the harness's value encoding and re-read within the id limit *)
Definition serialisable (u : universe) (H : list tid) (w : world) : Prop :=
  (forall a r t v, In a (w_archs w) -> In r (a_rows a) -> In (t, v) (r_vals r) -> In t H -> val_fits u t v = true) /\
  (forall a r, In a (w_archs w) -> In r (a_rows a) -> r_id r <= MAX_DE_ID).

(* C14: every announced length equals the number of elements written, in both formats *)
Definition c14_lengths_stmt : Prop :=
  forall H w q, lengths_ok (row_ser H w q) = true /\ lengths_ok (col_ser H w q) = true.

(* C14: exactly the entities matching the query are emitted, each once, with its handle *)
Definition c14_satisfying_stmt : Prop :=
  forall u H w q, WInv u w -> fits w ->
    match row_ser H w q with
    | TM _ l => forall b, In (TN b) (map fst l) <->
                          exists h l0, to_bits h = b /\ located w h /\ abs w h = Some l0 /\ sat (map fst l0) q = true
    | _ => False
    end.

(* C14: round trip, row format, both readers *)
Definition c14_roundtrip_row_stmt : Prop :=
  forall u H w q reader, total_inj u -> ctx_ok H -> WInv u w -> fits w -> flushed w -> serialisable u H w ->
    exists w' d, row_de u H reader (row_ser H w q) = DOk (w', d) /\ WInv u w' /\
                 forall h, abs w' h = copy_spec H w q h.

(* without the u32 condition on the context's ids the statement is false (refuted in SerdeProofs.v) *)
Definition c14_roundtrip_row_anyid_stmt : Prop :=
  forall u H w q reader, total_inj u -> ctx_nodup H -> WInv u w -> fits w -> flushed w -> serialisable u H w ->
    exists w' d, row_de u H reader (row_ser H w q) = DOk (w', d) /\ WInv u w' /\
                 forall h, abs w' h = copy_spec H w q h.
Definition c14_roundtrip_col_anyid_stmt : Prop :=
  forall u H w q reader, total_inj u -> ctx_nodup H -> WInv u w -> fits w -> flushed w -> serialisable u H w ->
    exists w', col_de u H reader (col_ser H w q) = DOk w' /\ WInv u w' /\
               forall h, abs w' h = copy_spec H w q h.

(* C14: round trip, column format, both readers *)
Definition c14_roundtrip_col_stmt : Prop :=
  forall u H w q reader, total_inj u -> ctx_ok H -> WInv u w -> fits w -> flushed w -> serialisable u H w ->
    exists w', col_de u H reader (col_ser H w q) = DOk w' /\ WInv u w' /\
               forall h, abs w' h = copy_spec H w q h.

(* C15: for EVERY token tree (not just images of the serialiser), both formats, both readers: the
   decoder returns an error or a world satisfying the invariant - it never panics.
   Parametric in the totality of the two id-targeted spawns (proved in WorldProofs5.v). *)
Definition c15_total_row_stmt : Prop :=
  forall u H reader t, total_inj u -> ctx_nodup H ->
    match row_de u H reader t with
    | DOk (w, _) => WInv u w /\ fits w
    | DErr => True
    | DPanic _ => False
    end.

Definition c15_total_col_stmt : Prop :=
  forall u H reader t, total_inj u -> ctx_nodup H ->
    match col_de u H reader t with
    | DOk w => WInv u w /\ fits w
    | DErr => True
    | DPanic _ => False
    end.
