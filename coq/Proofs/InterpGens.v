(* Every generation stored in the entity table stays a NonZeroU32 through the world operations
   (no WInv, no fits needed), and handles produced by spawn have valid generations. *)
From Coq Require Import List NArith ZArith Bool Lia ZifyBool ZifyNat ZifyN.
From HecsV Require Import Base.ListN Base.ListNFacts Proofs.ListNMore Model.EntityBits Model.Types Model.Entities Model.World Model.Containers
  Proofs.WorldSpec Proofs.WorldLemmas Proofs.WorldProofs1 Proofs.WorldProofs2 Proofs.WorldProofs4
  Proofs.ContSpec Proofs.ContRec Proofs.ContMono Proofs.ContRun Proofs.InterpDefs.
Import ListNotations.
Open Scope N_scope.

Lemma gens_set_loc e id l : gens_ok e -> gens_ok (set_loc e id l).
Proof.
  intros G m' H. apply In_meta_set_loc in H as (m & Hm & ->). apply G. exact Hm.
Qed.

Lemma gens_set_idx e id i : gens_ok e -> gens_ok (set_idx e id i).
Proof.
  intros G m' H. apply In_meta_set_idx in H as (m & Hm & ->). apply G. exact Hm.
Qed.

Lemma gens_fix_moved e moved idx : gens_ok e -> gens_ok (fix_moved e moved idx).
Proof.
  intros G. destruct moved as [id|]; cbn [fix_moved]; [apply gens_set_idx; exact G|exact G].
Qed.

Lemma gens_flush e e1 ids : flush e = Done (e1, ids) -> gens_ok e -> gens_ok e1.
Proof.
  intros H G. apply flush_spec in H as (_ & -> & _). intros m Hm. cbn [meta] in Hm.
  apply in_app_or in Hm as [Hm|Hm]; [apply G; exact Hm|].
  apply In_repeatN in Hm. subst m. cbn [EMPTY_META m_gen]. unfold W32. lia.
Qed.

Lemma gens_flush_ids : forall ids e a e' a', flush_ids e a ids = (e', a') -> gens_ok e -> gens_ok e'.
Proof.
  induction ids as [|id r IH]; intros e a e' a' H G; cbn [flush_ids] in H.
  - injection H as <- _. exact G.
  - unfold arch_push in H. apply IH in H; [exact H|]. apply gens_set_idx. exact G.
Qed.

Lemma gens_w_flush w w' : w_flush w = Done w' -> gens_ok (w_ents w) -> gens_ok (w_ents w').
Proof.
  intros H G. apply w_flush_unfold in H as (e & ids & a0 & e' & a0' & Hf & _ & Hi & ->).
  cbn [with_ents w_ents]. eapply gens_flush_ids; [exact Hi|]. eapply gens_flush; [exact Hf|exact G].
Qed.

Lemma gen_of_ok e id : gens_ok e -> 0 < gen_of e id < W32.
Proof.
  intros G. unfold gen_of. destruct (nthN (meta e) id) as [m|] eqn:E.
  - apply G. eapply nthN_In. exact E.
  - unfold W32. lia.
Qed.

Lemma gens_alloc e e' h : alloc e = Done (e', h) -> gens_ok e -> gens_ok e' /\ hgen_ok h.
Proof.
  unfold alloc. destruct (needs_flush e); [discriminate|].
  destruct (lastN (pending e)) as [id|].
  - intros [= <- <-] G. split.
    + intros m Hm. cbn [meta] in Hm. apply G. exact Hm.
    + unfold hgen_ok. cbn [e_gen]. apply gen_of_ok. exact G.
  - destruct (N.leb W32 (lenN (meta e))); [discriminate|]. intros [= <- <-] G. split.
    + intros m Hm. cbn [meta] in Hm. apply in_app_or in Hm as [Hm|Hm]; [apply G; exact Hm|].
      destruct Hm as [<-|[]]. cbn [EMPTY_META m_gen]. unfold W32. lia.
    + unfold hgen_ok. cbn [e_gen]. unfold W32. lia.
Qed.

Lemma gens_free e h e' l : free e h = Done (Some (e', l)) -> gens_ok e -> gens_ok e'.
Proof.
  intros H G. apply free_spec in H as (m & _ & Hm & _ & _ & _ & _ & ->).
  intros m' Hm'. cbn [meta] in Hm'. apply In_updN in Hm' as [->|Hm'].
  - cbn [m_gen]. apply next_gen_range. apply G. eapply nthN_In. exact Hm.
  - apply G. exact Hm'.
Qed.

Lemma gens_detach_row w l w' r : detach_row w l = Done (w', r) -> gens_ok (w_ents w) -> gens_ok (w_ents w').
Proof.
  intros H G. apply detach_row_unfold in H as (a & a' & moved & _ & _ & ->). cbn [with_ents w_ents].
  apply gens_fix_moved. exact G.
Qed.

Lemma gens_insert_inner u w h b origin l w' d :
  insert_inner u w h b origin l = Done (w', d) -> gens_ok (w_ents w) -> gens_ok (w_ents w').
Proof.
  unfold insert_inner. destruct (insert_target u w origin b) as [[w1 t]|c] eqn:Et; [|discriminate]. cbn [bind].
  apply ents_insert_target in Et.
  destruct (get_row w1 l) as [[sa sr]|c]; [|discriminate]. cbn [bind].
  destruct (lookup_all (it_replaced t) (r_vals sr)) as [dropped|]; [|discriminate].
  destruct (N.eqb (it_index t) (l_arch l)).
  - destruct (negb (all_in (b_types b) (a_types sa))); [discriminate|]. intros [= <- _] G.
    cbn [upd_arch with_archs w_ents]. rewrite Et. exact G.
  - destruct (lookup_all (it_retained t) (r_vals sr)) as [kept|]; [|discriminate].
    destruct (put_row w1 _ _ _) as [[w2 ti]|c] eqn:Ep; [|discriminate]. cbn [bind].
    apply ents_put_row in Ep.
    destruct (detach_row _ l) as [[w4 r4]|c] eqn:Ed; [|discriminate]. cbn [bind].
    intros [= <- _] G. apply gens_detach_row in Ed; [exact Ed|]. cbn [with_ents w_ents].
    apply gens_set_loc. rewrite Ep, Et. exact G.
Qed.

Lemma gens_w_spawn u w b w' h : w_spawn u w b = Done (w', h) -> gens_ok (w_ents w) -> gens_ok (w_ents w') /\ hgen_ok h.
Proof.
  intros H G. apply w_spawn_unfold in H as (w0 & e & Hf & Ha & Hs).
  apply gens_w_flush in Hf; [|exact G]. apply gens_alloc in Ha as [Ge Hh]; [|exact Hf].
  split; [|exact Hh].
  apply spawn_inner_unfold in Hs as (w1 & aid & w2 & i & Hb & Hp & ->).
  apply ents_bundle_archetype in Hb. apply ents_put_row in Hp. cbn [with_ents w_ents] in *.
  apply gens_set_loc. rewrite Hp, Hb. exact Ge.
Qed.

Lemma gens_w_insert u w h b w' r : w_insert u w h b = Done (w', r) -> gens_ok (w_ents w) -> gens_ok (w_ents w').
Proof.
  unfold w_insert. destruct (w_flush w) as [w0|c] eqn:Hf; [|discriminate]. cbn [bind].
  intros H G. apply gens_w_flush in Hf; [|exact G]. revert H. destruct (get (w_ents w0) h) as [l|].
  - destruct (insert_inner u w0 h b (l_arch l) l) as [[w1 d]|c] eqn:Ei; [|discriminate]. cbn [bind].
    intros [= <- _]. eapply gens_insert_inner; [exact Ei|exact Hf].
  - intros [= <- _]. exact Hf.
Qed.

Lemma gens_w_remove u w h key ts w' r : w_remove u w h key ts = Done (w', r) -> gens_ok (w_ents w) -> gens_ok (w_ents w').
Proof.
  intros H G. apply w_remove_unfold in H as (w0 & Hf & H). apply gens_w_flush in Hf; [|exact G].
  destruct H as [(_ & -> & _)|(l & sa & sr & _ & _ & _ & H)]; [exact Hf|].
  destruct H as [(_ & -> & _)|(taken & w1 & target & _ & Hr & _ & H)]; [exact Hf|].
  apply ents_remove_target in Hr.
  destruct H as [(_ & ->)|(ta & w2 & ti & r4 & _ & _ & Hp & Hd)]; [rewrite Hr; exact Hf|].
  apply ents_put_row in Hp. apply gens_detach_row in Hd; [exact Hd|]. cbn [with_ents w_ents].
  apply gens_set_loc. rewrite Hp, Hr. exact Hf.
Qed.

Lemma gens_w_despawn w h w' r : w_despawn w h = Done (w', r) -> gens_ok (w_ents w) -> gens_ok (w_ents w').
Proof.
  intros H G. apply w_despawn_unfold in H as (w0 & Hf & H). apply gens_w_flush in Hf; [|exact G].
  destruct H as [(_ & -> & _)|(e & l & r1 & Hfr & Hd & _)]; [exact Hf|].
  apply gens_free in Hfr; [|exact Hf]. apply gens_detach_row in Hd; [exact Hd|]. cbn [with_ents w_ents]. exact Hfr.
Qed.

Lemma cm_run_gens u : forall cmds fuel w c i sp dr wr c' sp' dr' p,
  cm_run u fuel w c i cmds sp dr = (wr, c', sp', dr', p) ->
  gens_ok (w_ents w) -> Forall hgen_ok sp -> gens_ok (w_ents wr) /\ Forall hgen_ok sp'.
Proof.
  induction cmds as [|x cmds IH]; intros [|f] w c i sp dr wr c' sp' dr' p H G S;
    try (cbn [cm_run] in H; injection H as <- _ <- _ _; split; assumption).
  destruct x as [[h|] s n|h k ts|h].
  - rewrite cm_run_insert in H. destruct (w_insert u w h _) as [[w' r]|pc] eqn:E;
      [|injection H as <- _ <- _ _; split; assumption].
    apply gens_w_insert in E; [|exact G]. destruct r; eapply IH; eauto.
  - rewrite cm_run_spawn in H. destruct (w_spawn u w _) as [[w' hh]|pc] eqn:E;
      [|injection H as <- _ <- _ _; split; assumption].
    apply gens_w_spawn in E as [G' Hh]; [|exact G]. eapply IH; [exact H|exact G'|].
    apply Forall_app. split; [exact S|]. constructor; [exact Hh|constructor].
  - rewrite cm_run_remove in H. destruct (w_remove u w h k ts) as [[w' r]|pc] eqn:E;
      [|injection H as <- _ <- _ _; split; assumption].
    apply gens_w_remove in E; [|exact G]. destruct r; eapply IH; eauto.
  - rewrite cm_run_despawn in H. destruct (w_despawn w h) as [[w' r]|pc] eqn:E;
      [|injection H as <- _ <- _ _; split; assumption].
    apply gens_w_despawn in E; [|exact G]. destruct r; eapply IH; eauto.
Qed.

Print Assumptions gens_w_flush.
Print Assumptions gens_w_spawn.
Print Assumptions gens_w_insert.
Print Assumptions gens_w_remove.
Print Assumptions gens_w_despawn.
Print Assumptions cm_run_gens.
