From Coq Require Import Extraction ExtrOcamlBasic.
From HecsV Require Import Model.Run.
Extraction Language OCaml.
Extraction "model.ml" run_case.
