(* Column storage layout of an archetype (src/archetype.rs): capacity growth, addressing, the
   dangling base pointers used before the first allocation and for zero-sized types. *)
From Coq Require Import List NArith ZArith Bool.
From HecsV Require Import Base.ListN Model.Types.
Import ListNotations.
Open Scope N_scope.

(* grow(min_increment): capacity += max(capacity, min_increment) *)
Definition cap_grow (cap min_inc : N) : N := cap + N.max cap min_inc.

(* allocate(): if len == capacity then grow(64) *)
Definition cap_push (cap len : N) : N := if N.eqb len cap then cap_grow cap 64 else cap.

(* k successive allocate() calls starting at length len *)
Definition cap_push_many (cap len k : N) : N :=
  snd (N.recursion (len, cap) (fun _ st => (fst st + 1, cap_push (snd st) (fst st))) k).

(* reserve(additional) *)
Definition cap_reserve (cap len additional : N) : N :=
  if N.ltb (cap - len) additional then cap_grow cap (N.max (additional - (cap - len)) 64) else cap.

(* ColumnBatchType::into_batch(size): a fresh archetype with reserve(size) *)
Definition cap_batch (size : N) : N := cap_reserve 0 0 size.

(* base "pointer" of a column: after a growth, an allocation aligned for the type (modelled by its
   alignment class: any multiple of align) or, for zero-sized types, the alignment itself as a
   dangling address; before any growth, the archetype's maximal alignment as a dangling address *)
Definition dangling_base (u : universe) (types : list tid) (t : tid) (cap : N) : N :=
  if N.eqb cap 0 then match types with [] => 1 | t0 :: _ => ti_align (info_of u t0) end
  else ti_align (info_of u t).

(* address of row i in column t relative to the column's base *)
Definition slot_off (u : universe) (t : tid) (i : N) : N := ti_size (info_of u t) * i.
