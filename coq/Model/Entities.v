(* Entities: the generational id allocator (src/entities.rs), one function per Rust method *)
From Coq Require Import List NArith ZArith Bool.
From HecsV Require Import Base.ListN Model.EntityBits.
Import ListNotations.
Open Scope N_scope.

Definition SENT : N := 4294967295.     (* u32::MAX: "no row" placeholder index *)

Record loc := { l_arch : N; l_idx : N }.
Record emeta := { m_gen : N; m_loc : loc }.
Definition EMPTY_LOC : loc := {| l_arch := 0; l_idx := SENT |}.
Definition EMPTY_META : emeta := {| m_gen := 1; m_loc := EMPTY_LOC |}.

Record entities := { meta : list emeta; pending : list N; cursor : Z; elen : N }.

Definition ents_empty : entities := {| meta := []; pending := []; cursor := 0%Z; elen := 0 |}.

Definition set_loc (e : entities) (id : N) (l : loc) : entities :=
  match nthN (meta e) id with
  | Some m => {| meta := updN (meta e) id {| m_gen := m_gen m; m_loc := l |};
                 pending := pending e; cursor := cursor e; elen := elen e |}
  | None => e
  end.

Definition set_idx (e : entities) (id : N) (i : N) : entities :=
  match nthN (meta e) id with
  | Some m => set_loc e id {| l_arch := l_arch (m_loc m); l_idx := i |}
  | None => e
  end.

Definition gen_of (e : entities) (id : N) : N :=
  match nthN (meta e) id with Some m => m_gen m | None => 1 end.

Definition needs_flush (e : entities) : bool := negb (Z.eqb (cursor e) (Z.of_N (lenN (pending e)))).

(* outcome of operations that can panic inside hecs *)
Inductive outcome (A : Type) := Done (a : A) | Panic (class : N).
Arguments Done {A} a. Arguments Panic {A} class.
(* panic classes *)
Definition P_DUP : N := 1.       (* duplicate component types *)
Definition P_FLUSH : N := 2.     (* verify_flushed debug assertion *)
Definition P_BOUNDS : N := 3.    (* index out of bounds / unwrap on None / arithmetic overflow *)
Definition P_TOOMANY : N := 4.   (* "too many entities" *)
Definition P_ASSERT : N := 5.    (* an assert!/assert_eq! of hecs *)
Definition P_UNSORTED : N := 6.  (* "type info is unsorted" *)

(* reserve_entity(&self): one atomic fetch_sub on the cursor *)
Definition reserve_entity (e : entities) : outcome (entities * entity) :=
  let n := cursor e in
  let e' := {| meta := meta e; pending := pending e; cursor := (n - 1)%Z; elen := elen e |} in
  if Z.ltb 0 n then
    match nthN (pending e) (Z.to_N (n - 1)) with
    | Some id => Done (e', {| e_id := id; e_gen := gen_of e id |})
    | None => Panic P_BOUNDS
    end
  else
    let id := (Z.of_N (lenN (meta e)) - n)%Z in
    if Z.ltb id (Z.of_N W32) then Done (e', {| e_id := Z.to_N id; e_gen := 1 |}) else Panic P_TOOMANY.

(* reserve_entities(&self, count) *)
Definition reserve_entities (e : entities) (count : N) : outcome (entities * list entity) :=
  let range_end := cursor e in
  let range_start := (range_end - Z.of_N count)%Z in
  let e' := {| meta := meta e; pending := pending e; cursor := range_start; elen := elen e |} in
  let fl_lo := Z.to_N (Z.max range_start 0) in
  let fl_hi := Z.to_N (Z.max range_end 0) in
  if N.ltb (lenN (pending e)) fl_hi then Panic P_BOUNDS else
  let from_free := map (fun id => {| e_id := id; e_gen := gen_of e id |})
                       (takeN (fl_hi - fl_lo) (dropN fl_lo (pending e))) in
  if Z.leb 0 range_start then Done (e', from_free)
  else
    let base := Z.of_N (lenN (meta e)) in
    let new_end := (base - range_start)%Z in
    if Z.leb (Z.of_N W32) new_end then Panic P_TOOMANY else
    let new_start := (base - Z.min range_end 0)%Z in
    Done (e', from_free ++ map (fun id => {| e_id := id; e_gen := 1 |})
                               (seqN (Z.to_N new_start) (Z.to_N (new_end - new_start)))).

(* alloc(&mut self) *)
Definition alloc (e : entities) : outcome (entities * entity) :=
  if needs_flush e then Panic P_FLUSH else
  match lastN (pending e) with
  | Some id =>
      let p := removelastN (pending e) in
      Done ({| meta := meta e; pending := p; cursor := Z.of_N (lenN p); elen := elen e + 1 |},
            {| e_id := id; e_gen := gen_of e id |})
  | None =>
      let id := lenN (meta e) in
      if N.leb W32 id then Panic P_TOOMANY else
      Done ({| meta := meta e ++ [EMPTY_META]; pending := pending e; cursor := cursor e; elen := elen e + 1 |},
            {| e_id := id; e_gen := 1 |})
  end.

(* alloc_many + the iteration of AllocManyState + finish_alloc_many (with the cursor reset):
   returns the ids in the order the rows are assigned: recycled ids pending[pending_end..] then fresh *)
Fixpoint set_locs (e : entities) (ids : list N) (arch first : N) : entities :=
  match ids with
  | [] => e
  | id :: r => set_locs (set_loc e id {| l_arch := arch; l_idx := first |}) r arch (N.succ first)
  end.

Definition alloc_many (e : entities) (n arch first : N) : outcome (entities * list N) :=
  if needs_flush e then Panic P_FLUSH else
  let plen := lenN (pending e) in
  let fresh := n - plen in                      (* saturating_sub *)
  if N.leb (SENT) (lenN (meta e) + fresh) then Panic P_TOOMANY else
  let pending_end := plen - n in                (* saturating_sub *)
  let recycled := dropN pending_end (pending e) in
  let e1 := set_locs e recycled arch first in
  let first' := first + lenN recycled in
  let fresh_start := lenN (meta e) in
  let new_meta := map (fun i => {| m_gen := 1; m_loc := {| l_arch := arch; l_idx := first' + i |} |})
                      (seqN 0 fresh) in
  let p := takeN pending_end (pending e) in
  Done ({| meta := meta e1 ++ new_meta; pending := p; cursor := Z.of_N (lenN p); elen := elen e + n |},
        recycled ++ seqN fresh_start fresh).

(* swap_remove on the free list *)
Definition swap_removeN (l : list N) (i : N) : list N :=
  match lastN l with
  | Some x => removelastN (updN l i x)
  | None => l
  end.

(* alloc_at(&mut self, entity) -> Option<Location> *)
Definition alloc_at (e : entities) (h : entity) : outcome (entities * option loc) :=
  if needs_flush e then Panic P_FLUSH else
  let id := e_id h in
  let mlen := lenN (meta e) in
  let '(e1, l) :=
    if N.leb mlen id then
      let p := pending e ++ seqN mlen (id - mlen) in
      ({| meta := meta e ++ repeatN EMPTY_META (id + 1 - mlen); pending := p;
          cursor := Z.of_N (lenN p); elen := elen e + 1 |}, None)
    else match positionN id (pending e) with
         | Some i =>
             let p := swap_removeN (pending e) i in
             ({| meta := meta e; pending := p; cursor := Z.of_N (lenN p); elen := elen e + 1 |}, None)
         | None =>
             let old := match nthN (meta e) id with Some m => m_loc m | None => EMPTY_LOC end in
             (set_loc e id EMPTY_LOC, Some old)
         end in
  match nthN (meta e1) id with
  | Some m => Done ({| meta := updN (meta e1) id {| m_gen := e_gen h; m_loc := m_loc m |};
                       pending := pending e1; cursor := cursor e1; elen := elen e1 |}, l)
  | None => Panic P_BOUNDS
  end.

Definition next_gen (g : N) : N := if N.eqb (g + 1) W32 then 1 else g + 1.

(* free(&mut self, entity) -> Result<Location, NoSuchEntity> *)
Definition free (e : entities) (h : entity) : outcome (option (entities * loc)) :=
  if needs_flush e then Panic P_FLUSH else
  match nthN (meta e) (e_id h) with
  | None => Done None
  | Some m =>
      if negb (N.eqb (m_gen m) (e_gen h)) || N.eqb (l_idx (m_loc m)) SENT then Done None
      else
        let p := pending e ++ [e_id h] in
        if N.eqb (elen e) 0 then Panic P_BOUNDS else
        Done (Some ({| meta := updN (meta e) (e_id h) {| m_gen := next_gen (m_gen m); m_loc := EMPTY_LOC |};
                       pending := p; cursor := Z.of_N (lenN p); elen := elen e - 1 |}, m_loc m))
  end.

Definition reserved_part (e : entities) : list N := dropN (Z.to_N (Z.max (cursor e) 0)) (pending e).

(* contains(&self, entity) *)
Definition contains (e : entities) (h : entity) : bool :=
  match nthN (meta e) (e_id h) with
  | Some m =>
      N.eqb (m_gen m) (e_gen h) &&
      (negb (N.eqb (l_idx (m_loc m)) SENT) || memN (e_id h) (reserved_part e))
  | None =>
      N.eqb (e_gen h) 1 && Z.ltb (cursor e) 0 &&
      Z.ltb (Z.of_N (e_id h)) (Z.abs (cursor e) + Z.of_N (lenN (meta e)))
  end.

(* get(&self, entity) -> Result<Location, NoSuchEntity> *)
Definition get (e : entities) (h : entity) : option loc :=
  match nthN (meta e) (e_id h) with
  | None =>
      if N.eqb (e_gen h) 1 && Z.ltb (cursor e) 0 &&
         Z.ltb (Z.of_N (e_id h)) (Z.abs (cursor e) + Z.of_N (lenN (meta e)))
      then Some EMPTY_LOC else None
  | Some m =>
      if negb (N.eqb (m_gen m) (e_gen h)) then None
      else if N.eqb (l_idx (m_loc m)) SENT then
        (if memN (e_id h) (reserved_part e) then Some EMPTY_LOC else None)
      else Some (m_loc m)
  end.

(* get_mut(&mut self, entity) *)
Definition get_mut (e : entities) (h : entity) : option loc :=
  match nthN (meta e) (e_id h) with
  | None => None
  | Some m => if N.eqb (m_gen m) (e_gen h) && negb (N.eqb (l_idx (m_loc m)) SENT)
              then Some (m_loc m) else None
  end.

(* flush: returns the ids to initialise, in the order `init` is called *)
Definition flush (e : entities) : outcome (entities * list N) :=
  let c := cursor e in
  let '(meta1, len1, fresh_ids, new_cursor) :=
    if Z.leb 0 c then (meta e, elen e, [], Z.to_N c)
    else
      let k := Z.to_N (- c) in
      (meta e ++ repeatN EMPTY_META k, elen e + k, seqN (lenN (meta e)) k, 0) in
  let plen := lenN (pending e) in
  if N.ltb plen new_cursor then Panic P_BOUNDS else
  let drained := dropN new_cursor (pending e) in
  let p := takeN new_cursor (pending e) in
  Done ({| meta := meta1; pending := p; cursor := Z.of_N new_cursor; elen := len1 + (plen - new_cursor) |},
        fresh_ids ++ drained).

Definition ents_clear (e : entities) : entities := ents_empty.

(* resolve_unknown_gen *)
Definition resolve_unknown_gen (e : entities) (id : N) : entity :=
  {| e_id := id; e_gen := gen_of e id |}.
