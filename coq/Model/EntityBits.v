(* Entity::to_bits / from_bits / Ord / serde form  (src/entities.rs) *)
From Coq Require Import List NArith ZArith Lia.
Import ListNotations.
Open Scope N_scope.

Definition W32 : N := 4294967296.            (* 2^32 *)
Definition W64 : N := 18446744073709551616.  (* 2^64 *)

Record entity := { e_id : N; e_gen : N }.

(* ((generation as u64) << 32) | (id as u64) *)
Definition to_bits (e : entity) : N := N.lor (N.shiftl (e_gen e) 32) (e_id e).

(* generation = NonZeroU32::new((bits >> 32) as u32)?, id = bits as u32 *)
Definition from_bits (b : N) : option entity :=
  let g := N.land (N.shiftr b 32) (W32 - 1) in
  if N.eqb g 0 then None
  else Some {| e_id := N.land b (W32 - 1); e_gen := g |}.

(* #[derive(PartialEq, Eq, PartialOrd, Ord)] on struct { id, generation }: field order *)
Definition entity_eqb (a b : entity) : bool :=
  N.eqb (e_id a) (e_id b) && N.eqb (e_gen a) (e_gen b).

Definition entity_cmp (a b : entity) : comparison :=
  match N.compare (e_id a) (e_id b) with
  | Eq => N.compare (e_gen a) (e_gen b)
  | c => c
  end.

(* serde: Serialize writes to_bits as a u64; Deserialize reads a u64 and applies from_bits *)
Definition ser_entity (e : entity) : N := to_bits e.
Definition de_entity (b : N) : option entity := from_bits b.

Definition valid_entity (e : entity) : Prop := e_id e < W32 /\ 0 < e_gen e < W32.

Definition DANGLING : entity := {| e_id := W32 - 1; e_gen := W32 - 1 |}.

(* executable engine for the correspondence check: input bits b and a second bits b2;
   output = encoding of from_bits b, round trip, and comparison of the two decoded handles *)
Definition cmp_code (c : comparison) : N := match c with Lt => 0 | Eq => 1 | Gt => 2 end.

Definition run_bits (args : list N) : list N :=
  match args with
  | b1 :: b2 :: _ =>
      match from_bits b1, from_bits b2 with
      | Some e1, Some e2 =>
          [1; e_id e1; e_gen e1; to_bits e1; 1; e_id e2; e_gen e2; to_bits e2;
           (if entity_eqb e1 e2 then 1 else 0); cmp_code (entity_cmp e1 e2)]
      | Some e1, None => [1; e_id e1; e_gen e1; to_bits e1; 0]
      | None, Some e2 => [0; 1; e_id e2; e_gen e2; to_bits e2]
      | None, None => [0; 0]
      end
  | _ => []
  end.
