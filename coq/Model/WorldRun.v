(* Engine 1: scripts of world operations over two worlds; decoder, interpreter and observation
   encoders.  The Rust harness (harness/src/world_engine.rs) implements the same protocol. *)
From Coq Require Import List NArith ZArith Bool.
From HecsV Require Import Base.ListN Model.EntityBits Model.Types Model.Entities Model.World Model.Query Model.Containers Model.Guards Model.Serde Model.Layout.
Import ListNotations.
Open Scope N_scope.

Record wslot := { ws_world : world; ws_state : N }.   (* 0 live, 1 poisoned by a panic, 2 dropped *)
(* container slots of the script interpreter *)
Record conts := {
  k_eb : list common;                 (* EntityBuilder slots *)
  k_ebc : list common;                (* EntityBuilderClone slots *)
  k_built : list (option common);     (* BuiltEntityClone slots *)
  k_batch : list (option cbatch);     (* ColumnBatchBuilder slots *)
  k_cmd : list cmdbuf;                (* CommandBuffer slots *)
  k_next : N;                         (* serial of the most recent clone *)
  k_spawns : list N;                  (* per buffer: spawn commands recorded since the last run/clear/drop (table padding) *)
}.
Definition conts_new : conts :=
  {| k_eb := repeat common_new 4; k_ebc := repeat common_new 4; k_built := repeat None 4;
     k_batch := repeat None 4; k_cmd := repeat cmdbuf_new 2; k_next := 1073741824; k_spawns := [0; 0] |}.

Record est := { e_u : universe; e_ws : list wslot; e_handles : list entity; e_prep : list (N * prepared); e_k : conts;
                e_guards : list guard; e_cells : list cells; e_caps : list (list N) }.

(* table entry recorded when an operation that should have produced a handle failed *)
Definition NOHANDLE : entity := {| e_id := 200; e_gen := 4294967295 |}.
(* id-targeted spawns are only exercised for small ids (the real code would allocate id+1 slots) *)
Definition MAX_AT_ID : N := 4096.

(* ---- sorting helpers for canonical output ---- *)
Fixpoint insert_by {A} (key : A -> N) (x : A) (l : list A) : list A :=
  match l with
  | [] => [x]
  | y :: t => if N.leb (key x) (key y) then x :: l else y :: insert_by key x t
  end.
Definition sort_by {A} (key : A -> N) (l : list A) : list A := fold_right (insert_by key) [] l.

Definition zval (u : universe) (p : tid * val) : tid * val :=
  if N.eqb (ti_size (info_of u (fst p))) 0 then (fst p, 0) else p.

(* sort component lists by (type, value); values < 2^64, types < 2^16 *)
Definition canon_vals (u : universe) (l : list (tid * val)) : list (tid * val) :=
  sort_by (fun p => fst p * 18446744073709551616 + snd p) (map (zval u) l).

Definition enc_vals (u : universe) (l : list (tid * val)) : list N :=
  lenN l :: concat (map (fun p => [fst p; snd p]) (canon_vals u l)).

(* ---- decoding ---- *)
Definition take_pairs (n : N) (l : list N) : list (tid * val) * list N :=
  let fix go (fuel : nat) (n : N) (l : list N) : list (tid * val) * list N :=
    match fuel with
    | O => ([], l)
    | S f => if N.eqb n 0 then ([], l) else
             match l with
             | t :: v :: r => let '(ps, tl) := go f (N.pred n) r in ((t, v) :: ps, tl)
             | _ => ([], [])
             end
    end in go (length l) n l.

Definition dec_href (st : est) (l : list N) : entity * list N :=
  match l with
  | 0 :: i :: r => (match nthN (e_handles st) i with Some h => h | None => NOHANDLE end, r)
  | _ :: b :: r => (match from_bits b with Some h => h | None => DANGLING end, r)
  | _ => (DANGLING, [])
  end.

(* kind 0: static tuple in field order (key = 0 :: field types); kind 2: EntityBuilder::build()
   (no key; `info` sorted by TypeInfo before the components are handed over) *)
Fixpoint insert_item (u : universe) (x : tid * val) (l : list (tid * val)) : list (tid * val) :=
  match l with
  | [] => [x]
  | y :: t => if tle u (fst x) (fst y) then x :: l else y :: insert_item u x t
  end.

Definition dec_bundle (u : universe) (l : list N) : bundle * list N :=
  match l with
  | kind :: n :: r =>
      let '(items, tl) := take_pairs n r in
      (* kind 0: a static tuple; kinds >= 10: derived Bundle structs (one TypeId each, fields in the
         declared order); everything else: an EntityBuilder bundle *)
      (if N.eqb kind 0 || N.leb 10 kind then {| b_key := Some (kind :: map fst items); b_items := items |}
       else {| b_key := None; b_items := fold_right (insert_item u) [] items |}, tl)
  | _ => ({| b_key := None; b_items := [] |}, [])
  end.

Definition dec_types (l : list N) : list tid * list N :=
  match l with
  | k :: r => (takeN k r, dropN k r)
  | [] => ([], [])
  end.

(* n rows of values for the given types *)
Definition dec_rows (types : list tid) (n : N) (l : list N) : list (list (tid * val)) * list N :=
  let k := lenN types in
  let fix go (fuel : nat) (n : N) (l : list N) :=
    match fuel with
    | O => ([], l)
    | S f => if N.eqb n 0 then ([], l) else
             let '(rs, tl) := go f (N.pred n) (dropN k l) in
             (combine types (takeN k l) :: rs, tl)
    end in go (S (length l) + N.to_nat (N.min n 100000))%nat n l.

(* column batches store one value per declared type, in the archetype's (sorted, duplicate-free) type
   order: the row of a batch spawn in that order (the first value given for a type wins; a type the
   script gives no value for - only possible when the script ends early - gets the value 0) *)
Definition norm_row (sorted : list tid) (row : list (tid * val)) : list (tid * val) :=
  concat (map (fun t => match lookup_first t row with Some v => [(t, v)] | None => [(t, 0)] end) sorted).

Definition dec_hrefs (st : est) (n : N) (l : list N) : list entity * list N :=
  let fix go (fuel : nat) (n : N) (l : list N) :=
    match fuel with
    | O => ([], l)
    | S f => if N.eqb n 0 then ([], l) else
             let '(h, r) := dec_href st l in
             let '(hs, tl) := go f (N.pred n) r in (h :: hs, tl)
    end in go (S (length l)) n l.

(* ---- observation encoders ---- *)
Definition enc_entity (h : entity) : N := to_bits h.

Definition enc_world (u : universe) (w : world) : list N :=
  let it := sort_by (fun p => enc_entity (fst p)) (w_iter w) in
  let e := w_ents w in
  [w_len w; lenN it]
  ++ concat (map (fun p => enc_entity (fst p) :: enc_vals u (snd p)) it)
  ++ [lenN (w_archs w)]
  ++ concat (map (fun a => lenN (a_types a) :: sort_by (fun t => t) (a_types a)
                             ++ lenN (a_rows a) :: map r_id (a_rows a)) (w_archs w))
  ++ [lenN (meta e)] ++ concat (map (fun m => [m_gen m; l_arch (m_loc m); l_idx (m_loc m)]) (meta e))
  ++ [lenN (pending e)] ++ pending e
  ++ [if Z.ltb (cursor e) 0 then 1 else 0; Z.to_N (Z.abs (cursor e))].

Definition enc_probe_handle (u : universe) (w : world) (h : entity) : list N :=
  [if w_contains w h then 1 else 0]
  ++ match w_entity w h with
     | None => [0]
     | Some (a, _) => [1; lenN (a_types a)]
     end
  ++ concat (map (fun t => match w_get w h t with
                           | [2; v] => [2; snd (zval u (t, v))]
                           | l => l
                           end) (seqN 0 (lenN u)))
  ++ [if w_view_unit_contains w h then 1 else 0].

(* ---- queries (opcode 30) ---- *)
Fixpoint dec_query (fuel : nat) (l : list N) : query * list N :=
  match fuel with
  | O => (QTup [], l)
  | S f =>
      match l with
      | 1 :: t :: r => (QRead t, r)
      | 2 :: t :: r => (QWrite t, r)
      | 3 :: r => let '(q, r1) := dec_query f r in (QOpt q, r1)
      | 4 :: r => let '(a, r1) := dec_query f r in let '(b, r2) := dec_query f r1 in (QOr a b, r2)
      | 5 :: r => let '(a, r1) := dec_query f r in let '(b, r2) := dec_query f r1 in (QWith a b, r2)
      | 6 :: r => let '(a, r1) := dec_query f r in let '(b, r2) := dec_query f r1 in (QWithout a b, r2)
      | 7 :: r => let '(q, r1) := dec_query f r in (QSat q, r1)
      | 8 :: n :: r =>
          let fix many (fuel2 : nat) (n : N) (l : list N) : list query * list N :=
            match fuel2 with
            | O => ([], l)
            | S f2 => if N.eqb n 0 then ([], l) else
                      let '(q, r1) := dec_query f l in
                      let '(qs, r2) := many f2 (N.pred n) r1 in (q :: qs, r2)
            end in
          let '(qs, r1) := many (S (length r)) n r in (QTup qs, r1)
      | _ => (QTup [], [])
      end
  end.

Fixpoint enc_item (u : universe) (i : item) : list N :=
  match i with
  | IVal t v => [1; t; snd (zval u (t, v))]
  | INone => [2]
  | ISome x => 3 :: enc_item u x
  | ILeft x => 4 :: enc_item u x
  | IRight x => 5 :: enc_item u x
  | IBoth x y => 6 :: enc_item u x ++ enc_item u y
  | IBool b => [7; if b then 1 else 0]
  | ITup xs => 8 :: lenN xs :: (fix go (l : list item) := match l with [] => [] | x :: r => enc_item u x ++ go r end) xs
  | IBad => [99]
  end.

Definition enc_entries (u : universe) (l : list (entity * item)) : list N :=
  lenN l :: concat (map (fun p => enc_entity (fst p) :: enc_item u (snd p)) l).

(* the handles random-access paths are probed with *)
Definition sel_handles (l : list entity) : list entity :=
  if N.leb (lenN l) 16 then l else takeN 4 l ++ dropN (lenN l - 12) l.

(* assert_distinct: no two of the handles are equal (id and generation) *)
Fixpoint distinct_entities (l : list entity) : bool :=
  match l with
  | [] => true
  | h :: r => negb (existsb (fun x => N.eqb (e_id x) (e_id h) && N.eqb (e_gen x) (e_gen h)) r) && distinct_entities r
  end.

Definition enc_opt_item (u : universe) (o : option item) : list N :=
  match o with None => [0] | Some i => 1 :: enc_item u i end.

Fixpoint assoc_prep (k : N) (m : list (N * prepared)) : prepared :=
  match m with [] => prepared_new | (k', p) :: r => if N.eqb k k' then p else assoc_prep k r end.

Definition run_query (st : est) (wi : N) (w : world) (qidx path arg : N) (q : query) : est * list N :=
  let u := e_u st in
  let hs := sel_handles (e_handles st) in
  match path with
  | 0 | 1 => (st, query_len w q :: enc_entries u (query_iter w q))
  | 2 => (st, enc_entries u (query_iter w q) ++ concat (map (fun h => enc_opt_item u (view_get w q h)) hs))
  | 3 => let bs := query_batches w q arg in
         (st, lenN bs :: concat (map (enc_entries u) bs))
  | 4 | 5 | 6 =>
      let p := pq_refresh (assoc_prep qidx (e_prep st)) (wi + 1) w q in
      let st' := {| e_u := e_u st; e_ws := e_ws st; e_handles := e_handles st; e_prep := (qidx, p) :: e_prep st; e_k := e_k st; e_guards := e_guards st; e_cells := e_cells st; e_caps := e_caps st |} in
      if N.eqb path 6 then (st', concat (map (fun h => enc_opt_item u (pq_view_get p w q h)) hs))
      else (st', pq_len p w :: enc_entries u (pq_iter p w q))
  | 7 => (st, concat (map (fun h => match query_one w q h with
                                    | Q1NoSuch => [0] | Q1Unsat => [1] | Q1Item i => 2 :: enc_item u i
                                    end) hs))
  | 9 =>
      (* World::query_many_mut / View::get_many_mut on three of the probe handles: a rotation of the
         selection by [arg]; [arg >= 1000] repeats the first handle (assert_distinct must panic) *)
      let k := match lenN hs with 0 => 0 | n => N.modulo arg n end in
      match dropN k hs ++ takeN k hs with
      | a :: b :: c :: _ =>
          let tri := if N.leb 1000 arg then [a; b; a] else [a; b; c] in
          if distinct_entities tri then
            (st, 1 :: concat (map (fun h => match query_one w q h with
                                            | Q1NoSuch => [0] | Q1Unsat => [1] | Q1Item i => 2 :: enc_item u i
                                            end) tri)
                   ++ concat (map (fun h => enc_opt_item u (view_get w q h)) tri))
          else (st, [3])
      | _ => (st, [7])
      end
  | 11 =>
      (* the same with five handles in a scrambled order (the distinctness check of more than three
         handles works on a sorted copy: the results must still follow the caller's order) *)
      let k := match lenN hs with 0 => 0 | n => N.modulo arg n end in
      match dropN k hs ++ takeN k hs with
      | a :: b :: c :: d :: e :: _ =>
          let five := if N.leb 1000 arg then [d; b; e; a; d] else [d; b; e; a; c] in
          if distinct_entities five then
            (st, 1 :: concat (map (fun h => match query_one w q h with
                                            | Q1NoSuch => [0] | Q1Unsat => [1] | Q1Item i => 2 :: enc_item u i
                                            end) five)
                   ++ concat (map (fun h => enc_opt_item u (view_get w q h)) five))
          else (st, [3])
      | _ => (st, [7])
      end
  | 10 => let bs := query_batches w q arg in     (* QueryMut::into_iter_batched *)
          (st, lenN bs :: concat (map (enc_entries u) bs))
  | _ => (st, map (fun h => match satisfies w q h with None => 0 | Some b => if b then 2 else 1 end) hs
              ++ map (fun a => match access (a_types a) q with None => 0 | Some x => x + 1 end) (w_archs w))
  end.

(* ---- the interpreter ---- *)
Definition get_w (st : est) (i : N) : option world :=
  match nthN (e_ws st) i with
  | Some s => if N.eqb (ws_state s) 0 then Some (ws_world s) else None
  | None => None
  end.

Definition set_w (st : est) (i : N) (w : world) (state : N) : est :=
  {| e_u := e_u st; e_ws := updN (e_ws st) i {| ws_world := w; ws_state := state |}; e_handles := e_handles st; e_prep := e_prep st; e_k := e_k st; e_guards := e_guards st; e_cells := e_cells st; e_caps := e_caps st |}.

Definition add_handles (st : est) (hs : list entity) : est :=
  {| e_u := e_u st; e_ws := e_ws st; e_handles := e_handles st ++ hs; e_prep := e_prep st; e_k := e_k st; e_guards := e_guards st; e_cells := e_cells st; e_caps := e_caps st |}.

Definition out_ok (u : universe) (ret : list N) (dropped : list (tid * val)) : list N :=
  [0; lenN ret] ++ ret ++ enc_vals u dropped.
Definition out_err (u : universe) (code : N) (dropped : list (tid * val)) : list N :=
  [code; 0] ++ enc_vals u dropped.
Definition out_panic (u : universe) (class : N) (dropped : list (tid * val)) : list N :=
  [9; 1; class] ++ enc_vals u dropped.

Definition vals_flat (l : list (tid * val)) : list N := concat (map (fun p => [snd p]) l).

(* ---- containers (opcodes 50..86) ---- *)
Definition set_k (st : est) (k : conts) : est :=
  {| e_u := e_u st; e_ws := e_ws st; e_handles := e_handles st; e_prep := e_prep st; e_k := k; e_guards := e_guards st; e_cells := e_cells st; e_caps := e_caps st |}.
Definition k_with_eb (k : conts) (l : list common) : conts :=
  {| k_eb := l; k_ebc := k_ebc k; k_built := k_built k; k_batch := k_batch k; k_cmd := k_cmd k; k_next := k_next k; k_spawns := k_spawns k |}.
Definition k_with_ebc (k : conts) (l : list common) : conts :=
  {| k_eb := k_eb k; k_ebc := l; k_built := k_built k; k_batch := k_batch k; k_cmd := k_cmd k; k_next := k_next k; k_spawns := k_spawns k |}.
Definition k_with_built (k : conts) (l : list (option common)) : conts :=
  {| k_eb := k_eb k; k_ebc := k_ebc k; k_built := l; k_batch := k_batch k; k_cmd := k_cmd k; k_next := k_next k; k_spawns := k_spawns k |}.
Definition k_with_batch (k : conts) (l : list (option cbatch)) : conts :=
  {| k_eb := k_eb k; k_ebc := k_ebc k; k_built := k_built k; k_batch := l; k_cmd := k_cmd k; k_next := k_next k; k_spawns := k_spawns k |}.
Definition k_with_cmd (k : conts) (l : list cmdbuf) : conts :=
  {| k_eb := k_eb k; k_ebc := k_ebc k; k_built := k_built k; k_batch := k_batch k; k_cmd := l; k_next := k_next k; k_spawns := k_spawns k |}.
Definition k_with_next (k : conts) (n : N) : conts :=
  {| k_eb := k_eb k; k_ebc := k_ebc k; k_built := k_built k; k_batch := k_batch k; k_cmd := k_cmd k; k_next := n; k_spawns := k_spawns k |}.

Definition k_with_spawns (k : conts) (l : list N) : conts :=
  {| k_eb := k_eb k; k_ebc := k_ebc k; k_built := k_built k; k_batch := k_batch k; k_cmd := k_cmd k; k_next := k_next k; k_spawns := l |}.
Definition spawns_of (k : conts) (cb : N) : N := match nthN (k_spawns k) cb with Some n => n | None => 0 end.

Definition nth_common (l : list common) (i : N) : common := match nthN l i with Some c => c | None => common_new end.
Definition enc_events (ev : list aevent) : list N := [].   (* allocator events are compared by the layout engine *)

Definition enc_builder_probe (u : universe) (c : common) : list N :=
  concat (map (fun t => (if common_has c t then 1 else 0) ::
                        match common_get c t with
                        | Some (off, v) => [1; snd (zval u (t, v))]
                        | None => [0]
                        end) (seqN 0 (lenN u)))
  ++ lenN (common_types c) :: common_types c.

Definition spawn_count (c : cmdbuf) : N :=
  lenN (filter (fun x => match x with CSpawnOrInsert None _ _ => true | _ => false end) (cm_cmds c)).

Definition exec_cont (st : est) (opc : N) (l : list N) : est * list N * list N :=
  let u := e_u st in
  let k := e_k st in
  match opc, l with
  (* --- EntityBuilder --- *)
  | 50, s :: t :: v :: rest =>
      let '(c', d, _) := common_add u (nth_common (k_eb k) s) t v in
      (set_k st (k_with_eb k (updN (k_eb k) s c')), rest, out_ok u [] d)
  | 52, s :: rest =>
      let '(c', d) := common_clear (nth_common (k_eb k) s) in
      (set_k st (k_with_eb k (updN (k_eb k) s c')), rest, out_ok u [] d)
  | 53, s :: wi :: rest =>
      match get_w st wi with
      | None => (add_handles st [NOHANDLE], rest, [8])
      | Some w =>
          let c := builder_build u (nth_common (k_eb k) s) in
          let b := built_bundle c in
          let st1 := set_k st (k_with_eb k (updN (k_eb k) s (builder_after_put c))) in
          match w_spawn u w b with
          | Done (w', h) => (add_handles (set_w st1 wi w' 0) [h], rest, out_ok u [enc_entity h] [])
          | Panic p => (add_handles (set_w st1 wi w 1) [NOHANDLE], rest, out_panic u p (b_items b))
          end
      end
  | 54, s :: wi :: r1 =>
      let '(h, rest) := dec_href st r1 in
      match get_w st wi with
      | None => (st, rest, [8])
      | Some w =>
          let c := builder_build u (nth_common (k_eb k) s) in
          let b := built_bundle c in
          let st1 := set_k st (k_with_eb k (updN (k_eb k) s (builder_after_put c))) in
          match w_insert u w h b with
          | Done (w', WOk d) => (set_w st1 wi w' 0, rest, out_ok u [] d)
          | Done (w', _) => (set_w st1 wi w' 0, rest, out_err u 1 (b_items b))
          | Panic p => (set_w st1 wi w 1, rest, out_panic u p (b_items b))
          end
      end
  | 55, s :: rest => (st, rest, enc_builder_probe u (nth_common (k_eb k) s))
  | 56, s :: rest =>
      let c := builder_build u (nth_common (k_eb k) s) in
      let '(c', d) := common_clear c in
      (set_k st (k_with_eb k (updN (k_eb k) s c')), rest, out_ok u [] d)
  | 57, s :: rest =>
      let '(d, _) := common_drop (nth_common (k_eb k) s) in
      (set_k st (k_with_eb k (updN (k_eb k) s common_new)), rest, out_ok u [] d)
  (* --- EntityBuilderClone / BuiltEntityClone --- *)
  | 60, s :: t :: v :: rest =>
      let '(c', d, _) := common_add u (nth_common (k_ebc k) s) t v in
      (set_k st (k_with_ebc k (updN (k_ebc k) s c')), rest, out_ok u [] d)
  | 61, s :: rest =>
      let '(c', d) := common_clear (nth_common (k_ebc k) s) in
      (set_k st (k_with_ebc k (updN (k_ebc k) s c')), rest, out_ok u [] d)
  | 62, s :: s2 :: rest =>
      (* slot s2 := clone of slot s; the builder previously in s2 is dropped *)
      let '(cl, next', _) := common_clone (nth_common (k_ebc k) s) (k_next k) in
      let '(d, _) := common_drop (nth_common (k_ebc k) s2) in
      (set_k st (k_with_next (k_with_ebc k (updN (k_ebc k) s2 cl)) next'), rest, out_ok u [] d)
  | 63, s :: ks :: rest =>
      (* built slot ks := builder s .build(); builder slot s becomes a fresh builder *)
      let built := clone_build u (nth_common (k_ebc k) s) in
      let d := match nthN (k_built k) ks with Some (Some old) => fst (common_drop old) | _ => [] end in
      (set_k st (k_with_built (k_with_ebc k (updN (k_ebc k) s common_new)) (updN (k_built k) ks (Some built))), rest, out_ok u [] d)
  | 64, ks :: wi :: rest =>
      match get_w st wi, nthN (k_built k) ks with
      | Some w, Some (Some c) =>
          let '(b, next') := built_clone_bundle c (k_next k) in
          let st1 := set_k st (k_with_next k next') in
          match w_spawn u w b with
          | Done (w', h) => (add_handles (set_w st1 wi w' 0) [h], rest, out_ok u [enc_entity h] [])
          | Panic p => (add_handles (set_w st1 wi w 1) [NOHANDLE], rest, out_panic u p (b_items b))
          end
      | _, _ => (add_handles st [NOHANDLE], rest, [8])
      end
  | 65, ks :: s :: rest =>
      match nthN (k_built k) ks with
      | Some (Some c) =>
          let '(d, _) := common_drop (nth_common (k_ebc k) s) in
          (set_k st (k_with_built (k_with_ebc k (updN (k_ebc k) s (clone_unbuild c))) (updN (k_built k) ks None)), rest, out_ok u [] d)
      | _ => (st, rest, [8])
      end
  | 66, s :: rest => (st, rest, enc_builder_probe u (nth_common (k_ebc k) s))
  | 67, ks :: ks2 :: rest =>
      match nthN (k_built k) ks with
      | Some (Some c) =>
          let '(cl, next', _) := common_clone c (k_next k) in
          let d := match nthN (k_built k) ks2 with Some (Some old) => fst (common_drop old) | _ => [] end in
          (set_k st (k_with_next (k_with_built k (updN (k_built k) ks2 (Some cl))) next'), rest, out_ok u [] d)
      | _ => (st, rest, [8])
      end
  | 68, ks :: rest =>
      let d := match nthN (k_built k) ks with Some (Some old) => fst (common_drop old) | _ => [] end in
      (set_k st (k_with_built k (updN (k_built k) ks None)), rest, out_ok u [] d)
  (* --- ColumnBatchBuilder --- *)
  | 70, s :: r1 =>
      let '(ts, r2) := dec_types r1 in
      match r2 with
      | n :: rest =>
          let d := match nthN (k_batch k) s with Some (Some old) => cbatch_values old | _ => [] end in
          (set_k st (k_with_batch k (updN (k_batch k) s (Some (cbatch_new u ts n)))), rest, out_ok u [] d)
      | [] => (st, [], [])
      end
  | 71, s :: t :: m :: r1 =>
      let vs := takeN m r1 in
      let rest := dropN m r1 in
      match nthN (k_batch k) s with
      | Some (Some b) =>
          match cbatch_push b t vs with
          | Some (b', rejected) =>
              (set_k st (k_with_batch k (updN (k_batch k) s (Some b'))), rest, out_ok u [lenN rejected] [])
          | None => (st, rest, [6])          (* writer::<T>() returned None: nothing was pushed *)
          end
      | _ => (st, rest, [8])
      end
  | 72, s :: wi :: rest =>
      match get_w st wi, nthN (k_batch k) s with
      | Some w, Some (Some b) =>
          let st1 := set_k st (k_with_batch k (updN (k_batch k) s None)) in
          if cbatch_complete b then
            match w_spawn_column_batch w (cb_types b) (cbatch_rows b) with
            | Done (w', hs) => (add_handles (set_w st1 wi w' 0) hs, rest, out_ok u (map enc_entity hs) [])
            | Panic p => (add_handles (set_w st1 wi w 1) (repeatN NOHANDLE (cb_target b)), rest, out_panic u p (cbatch_values b))
            end
          else (add_handles st1 (repeatN NOHANDLE (cb_target b)), rest, out_err u 4 (cbatch_values b))
      | _, _ => (st, rest, [8])
      end
  | 74, s :: rest =>
      let d := match nthN (k_batch k) s with Some (Some old) => cbatch_values old | _ => [] end in
      (set_k st (k_with_batch k (updN (k_batch k) s None)), rest, out_ok u [] d)
  (* --- CommandBuffer --- *)
  | 80, cb :: r1 =>
      let '(b, rest) := dec_bundle u r1 in
      match nthN (k_cmd k) cb with
      | Some c => let '(c', _) := cm_record u c None b in
                  (set_k st (k_with_spawns (k_with_cmd k (updN (k_cmd k) cb c')) (updN (k_spawns k) cb (spawns_of k cb + 1))), rest, out_ok u [] [])
      | None => (st, rest, [8])
      end
  | 81, cb :: r1 =>
      let '(h, r2) := dec_href st r1 in
      let '(b, rest) := dec_bundle u r2 in
      match nthN (k_cmd k) cb with
      | Some c => let '(c', _) := cm_record u c (Some h) b in
                  (set_k st (k_with_cmd k (updN (k_cmd k) cb c')), rest, out_ok u [] [])
      | None => (st, rest, [8])
      end
  | 82, cb :: r1 =>
      let '(h, r2) := dec_href st r1 in
      let '(ts, rest) := dec_types r2 in
      match nthN (k_cmd k) cb with
      | Some c => (set_k st (k_with_cmd k (updN (k_cmd k) cb (cm_push_cmd c (CRemove h (0 :: ts) ts)))), rest, out_ok u [] [])
      | None => (st, rest, [8])
      end
  | 83, cb :: r1 =>
      let '(h, rest) := dec_href st r1 in
      match nthN (k_cmd k) cb with
      | Some c => (set_k st (k_with_cmd k (updN (k_cmd k) cb (cm_push_cmd c (CDespawn h)))), rest, out_ok u [] [])
      | None => (st, rest, [8])
      end
  | 84, cb :: wi :: rest =>
      match get_w st wi, nthN (k_cmd k) cb with
      | Some w, Some c =>
          let n := spawns_of k cb in
          let '(w', c', spawned, d, p) := cm_run_on u w c in
          let st1 := set_k st (k_with_spawns (k_with_cmd k (updN (k_cmd k) cb c')) (updN (k_spawns k) cb 0)) in
          (* run_on does not report the handles it spawned: the harness recovers them as the entities
             that exist afterwards and did not exist before, in handle order *)
          let spawned := sort_by enc_entity (filter (fun h => match get_mut (w_ents w') h with Some _ => true | None => false end) spawned) in
          let hs := spawned ++ repeatN NOHANDLE (n - lenN spawned) in
          match p with
          | None => (add_handles (set_w st1 wi w' 0) hs, rest, out_ok u (map enc_entity spawned) d)
          | Some pc => (add_handles (set_w st1 wi w' 1) hs, rest, out_panic u pc d)
          end
      | _, _ => (st, rest, [8])
      end
  | 85, cb :: rest =>
      match nthN (k_cmd k) cb with
      | Some c => let '(c', d) := cm_clear c in
                  (set_k st (k_with_spawns (k_with_cmd k (updN (k_cmd k) cb c')) (updN (k_spawns k) cb 0)), rest, out_ok u [] d)
      | None => (st, rest, [8])
      end
  | 86, cb :: rest =>
      match nthN (k_cmd k) cb with
      | Some c => (set_k st (k_with_spawns (k_with_cmd k (updN (k_cmd k) cb cmdbuf_new)) (updN (k_spawns k) cb 0)), rest, out_ok u [] (cm_live_values c))
      | None => (st, rest, [8])
      end
  | _, _ => (st, [], [])
  end.

(* teardown of every container (end of script): everything still owned is dropped *)
Definition conts_drop_all (k : conts) : list (tid * val) :=
  concat (map (fun c => fst (common_drop c)) (k_eb k))
  ++ concat (map (fun c => fst (common_drop c)) (k_ebc k))
  ++ concat (map (fun o => match o with Some c => fst (common_drop c) | None => [] end) (k_built k))
  ++ concat (map (fun o => match o with Some b => cbatch_values b | None => [] end) (k_batch k))
  ++ concat (map cm_live_values (k_cmd k)).

(* ---- borrow guards (opcodes 100..116) ---- *)
Definition set_g (st : est) (gs : list guard) (cs : list cells) : est :=
  {| e_u := e_u st; e_ws := e_ws st; e_handles := e_handles st; e_prep := e_prep st; e_k := e_k st;
     e_guards := gs; e_cells := cs; e_caps := e_caps st |}.
Definition cells_of (st : est) (w : N) : cells := match nthN (e_cells st) w with Some c => c | None => [] end.
Definition archs_of (st : est) (w : N) : list arch :=
  match nthN (e_ws st) w with Some s => w_archs (ws_world s) | None => [] end.
Definition push_guard (st : est) (g : guard) (w : N) (cs : cells) : est :=
  set_g st (e_guards st ++ [g]) (updN (e_cells st) w cs).
Definition dec_ast (l : list N) : query * list N :=
  match l with
  | n :: r => (fst (dec_query (S (length (takeN n r))) (takeN n r)), dropN n r)
  | [] => (QTup [], [])
  end.

Definition dump_cells (st : est) : list N :=
  concat (map (fun wi =>
    match get_w st wi with
    | None => [7]
    | Some w =>
        5 :: concat (map (fun ia =>
               let '(i, a) := ia in
               map (fun t => cell_raw (cell_get (cells_of st wi) i t)) (sort_by (fun t => t) (a_types a)))
             (combine (seqN 0 (lenN (w_archs w))) (w_archs w)))
    end) [0; 1]).

Definition drop_slot (st : est) (slot : N) : est * bool :=
  match nthN (e_guards st) slot with
  | Some g =>
      match guard_world g with
      | Some w =>
          let '(cs, p) := guard_drop (cells_of st w) (archs_of st w) g in
          (set_g st (updN (e_guards st) slot GNone) (updN (e_cells st) w cs), p)
      | None => (st, false)
      end
  | None => (st, false)
  end.

Fixpoint drop_all_slots (fuel : nat) (st : est) (slot : N) : est :=
  match fuel with
  | O => st
  | S f => drop_all_slots f (fst (drop_slot st slot)) (N.succ slot)
  end.

(* the arguments of a guard-creating opcode, for skipping it when its world is gone *)
Definition skip_guard_args (st : est) (opc : N) (l : list N) : list N :=
  match opc, l with
  | 100, _ :: _ :: r1 | 104, _ :: _ :: r1 | 105, _ :: _ :: r1 => snd (dec_ast r1)
  | 106, _ :: r1 => match snd (dec_href st r1) with _ :: _ :: rest => rest | _ => [] end
  | 108, _ :: r1 => match snd (dec_href st r1) with _ :: r3 => snd (dec_ast r3) | [] => [] end
  | 111, _ :: _ :: _ :: _ :: rest => rest
  | _, _ => l
  end.

Definition creates_guard (opc : N) : bool :=
  N.eqb opc 100 || N.eqb opc 104 || N.eqb opc 105 || N.eqb opc 106 || N.eqb opc 108 || N.eqb opc 111.

Definition exec_guard (st : est) (opc : N) (l : list N) : est * list N * list N :=
  if creates_guard opc && match l with w :: _ => match get_w st w with None => true | Some _ => false end | [] => false end
  then (push_guard st GNone 0 (cells_of st 0), skip_guard_args st opc l, [8]) else
  match opc, l with
  | 100, w :: _ :: r1 =>
      let '(q, rest) := dec_ast r1 in
      (push_guard st (GQuery w q false) w (cells_of st w), rest, [0])
  | 101, slot :: rest =>
      match nthN (e_guards st) slot with
      | Some (GQuery w q false) =>
          match start_borrow (cells_of st w) 0 (archs_of st w) q with
          | (cs, true) => (set_g st (updN (e_guards st) slot (GQuery w q true)) (updN (e_cells st) w cs), rest, [0])
          | (cs, false) => (set_g st (e_guards st) (updN (e_cells st) w cs), rest, [9])
          end
      | Some (GQuery _ _ true) => (st, rest, [0])
      | _ => (st, rest, [8])
      end
  | 102, slot :: kind :: _ :: _ :: r1 =>
      let '(r, rest) := dec_ast r1 in
      match nthN (e_guards st) slot with
      | Some (GQuery w q b) =>
          let '(st1, _) := drop_slot st slot in
          (push_guard st1 (GQuery w (if N.eqb kind 0 then QWith q r else QWithout q r) false) w (cells_of st1 w), rest, [0])
      | _ => (push_guard st GNone 0 (cells_of st 0), rest, [8])
      end
  | 103, slot :: rest =>
      let '(st1, p) := drop_slot st slot in (st1, rest, [if p then 9 else 0])
  | 104, w :: _ :: r1 =>
      let '(q, rest) := dec_ast r1 in
      match start_borrow (cells_of st w) 0 (archs_of st w) q with
      | (cs, true) => (push_guard st (GView w q) w cs, rest, [0])
      | (cs, false) => (push_guard st GNone w cs, rest, [9])
      end
  | 105, w :: _ :: r1 =>
      let '(q, rest) := dec_ast r1 in
      let state := match nthN (e_ws st) w with
                   | Some s => pq_state (pq_prepare 0 (ws_world s) q)
                   | None => []
                   end in
      match prepared_borrow (cells_of st w) (archs_of st w) q state with
      | (cs, true) => (push_guard st (GPrep w q state) w cs, rest, [0])
      | (cs, false) => (push_guard st GNone w cs, rest, [9])
      end
  | 106, w :: r1 =>
      let '(h, r2) := dec_href st r1 in
      match r2 with
      | t :: uniq :: rest =>
          match get_w st w with
          | None => (push_guard st GNone w (cells_of st w), rest, [8])
          | Some wd =>
              match w_entity wd h with
              | None => (push_guard st GNone w (cells_of st w), rest, [1])
              | Some (a, _) =>
                  match get (w_ents wd) h with
                  | Some lo =>
                      if mem_tid t (a_types a) then
                        match borrow1 (cells_of st w) (l_arch lo) t (N.eqb uniq 1) with
                        | Some cs => (push_guard st (if N.eqb uniq 1 then GRefMut w (l_arch lo) t else GRef w (l_arch lo) t) w cs, rest, [0])
                        | None => (push_guard st GNone w (cells_of st w), rest, [9])
                        end
                      else (push_guard st GNone w (cells_of st w), rest, [2])
                  | None => (push_guard st GNone w (cells_of st w), rest, [1])
                  end
              end
          end
      | _ => (st, [], [])
      end
  | 107, slot :: rest =>
      match nthN (e_guards st) slot with
      | Some (GRef w a t) =>
          match borrow1 (cells_of st w) a t false with
          | Some cs => (push_guard st (GRef w a t) w cs, rest, [0])
          | None => (push_guard st GNone w (cells_of st w), rest, [9])
          end
      | _ => (push_guard st GNone 0 (cells_of st 0), rest, [8])
      end
  | 108, w :: r1 =>
      let '(h, r2) := dec_href st r1 in
      match r2 with
      | _ :: r3 =>
          let '(q, rest) := dec_ast r3 in
          match get_w st w with
          | None => (push_guard st GNone w (cells_of st w), rest, [8])
          | Some wd =>
              match get (w_ents wd) h with
              | Some lo => (push_guard st (GOne w q (l_arch lo) false) w (cells_of st w), rest, [0])
              | None => (push_guard st GNone w (cells_of st w), rest, [1])
              end
          end
      | [] => (st, [], [])
      end
  | 109, slot :: rest =>
      match nthN (e_guards st) slot with
      | Some (GOne w q a false) =>
          match nthN (archs_of st w) a with
          | Some ar =>
              match prepare (a_types ar) q with
              | None => (st, rest, [3])
              | Some s =>
                  match borrow_list (cells_of st w) a (borrow_cols q s) with
                  | (cs, true) => (set_g st (updN (e_guards st) slot (GOne w q a true)) (updN (e_cells st) w cs), rest, [0])
                  | (cs, false) => (set_g st (e_guards st) (updN (e_cells st) w cs), rest, [9])
                  end
              end
          | None => (st, rest, [8])
          end
      | Some (GOne _ _ _ true) => (st, rest, [9])
      | _ => (st, rest, [8])
      end
  | 110, slot :: kind :: _ :: _ :: r1 =>
      let '(r, rest) := dec_ast r1 in
      match nthN (e_guards st) slot with
      | Some (GOne w q a b) =>
          let '(st1, p) := drop_slot st slot in
          (push_guard st1 (GOne w (if N.eqb kind 0 then QWith q r else QWithout q r) a false) w (cells_of st1 w), rest, [if p then 9 else 0])
      | _ => (push_guard st GNone 0 (cells_of st 0), rest, [8])
      end
  | 111, w :: ai :: t :: uniq :: rest =>
      match nthN (archs_of st w) ai with
      | Some ar =>
          if mem_tid t (a_types ar) then
            match a_rows ar with
            | [] => (push_guard st (GCol w ai t false (N.eqb uniq 1)) w (cells_of st w), rest, [0])
            | _ => match borrow1 (cells_of st w) ai t (N.eqb uniq 1) with
                   | Some cs => (push_guard st (GCol w ai t true (N.eqb uniq 1)) w cs, rest, [0])
                   | None => (push_guard st GNone w (cells_of st w), rest, [9])
                   end
            end
          else (push_guard st GNone w (cells_of st w), rest, [3])
      | None => (push_guard st GNone w (cells_of st w), rest, [3])
      end
  | 112, slot :: rest =>
      match nthN (e_guards st) slot with
      | Some (GCol w a t held false) =>
          if held then
            match borrow1 (cells_of st w) a t false with
            | Some cs => (push_guard st (GCol w a t true false) w cs, rest, [0])
            | None => (push_guard st GNone w (cells_of st w), rest, [9])
            end
          else (push_guard st (GCol w a t false false) w (cells_of st w), rest, [0])
      | _ => (push_guard st GNone 0 (cells_of st 0), rest, [8])
      end
  | 113, _ :: r1 =>
      let '(q, rest) := dec_ast r1 in
      (st, rest, [if assert_borrow_ok q then 0 else 9])
  | 116, slot :: rest =>
      (* Ref::map / RefMut::map: the guard object is replaced by one holding the same borrow *)
      match nthN (e_guards st) slot with
      | Some (GRef _ _ _) | Some (GRefMut _ _ _) => (st, rest, [0])
      | _ => (st, rest, [8])
      end
  | 114, rest => (st, rest, dump_cells st)
  | 115, rest =>
      let st1 := drop_all_slots (length (e_guards st)) st 0 in
      (st1, rest, dump_cells st1)
  | _, _ => (st, [], [])
  end.

(* ---- serialisation round trips and malformed input (opcode 90) ---- *)
Definition HANDLED : list tid := [1; 2; 3].

Fixpoint enc_tok (t : tok) : list N :=
  match t with
  | TN n => [0; n]
  | TL a l => 1 :: a :: lenN l :: (fix go (l : list tok) := match l with [] => [] | x :: r => enc_tok x ++ go r end) l
  | TM a l => 2 :: a :: lenN l :: (fix go (l : list (tok * tok)) :=
                                     match l with [] => [] | (k, v) :: r => enc_tok k ++ enc_tok v ++ go r end) l
  end.

(* mutate the node with pre-order index [idx] (map keys and values count); returns the remaining index
   (None once the mutation has been applied) *)
Definition mutate_here (t : tok) (kind param : N) : tok :=
  match kind with
  | 0 => TN param
  | 1 => match t with TL a l => TL a (removelastN l) | TM a l => TM a (removelastN l) | _ => t end
  | 2 => match t with
         | TL a (x :: r) => TL a ((x :: r) ++ [x])
         | TM a (x :: r) => TM a ((x :: r) ++ [x])
         | _ => t
         end
  | 3 => match t with TL _ l => TL param l | TM _ l => TM param l | _ => t end
  | 4 => match t with TL a (x :: y :: r) => TL a (y :: x :: r) | _ => t end
  | 5 => match t with TN n => TN ((n + param) mod 18446744073709551616) | _ => t end
  (* 7: one more element than announced at the end of a sequence of numbers (the successor of its last one);
     8: the second element becomes the first one plus 2^32 (for a handle: the same id, the next generation) *)
  | 7 => match t with
         | TL a l => match lastN l with Some (TN n) => TL a (l ++ [TN ((n + 1) mod 18446744073709551616)]) | _ => t end
         | _ => t
         end
  | 8 => match t with
         | TL a (TN x :: _ :: r) => TL a (TN x :: TN ((x + 4294967296) mod 18446744073709551616) :: r)
         | _ => t
         end
  | _ => TL 0 []
  end.

Fixpoint mutate (t : tok) (idx : option N) (kind param : N) : tok * option N :=
  match idx with
  | None => (t, None)
  | Some 0 => (mutate_here t kind param, None)
  | Some i =>
      let i' := Some (N.pred i) in
      match t with
      | TN _ => (t, i')
      | TL a l =>
          let '(l', r) := (fix go (l : list tok) (idx : option N) : list tok * option N :=
                             match l with
                             | [] => ([], idx)
                             | x :: rest => let '(x', i1) := mutate x idx kind param in
                                            let '(rest', i2) := go rest i1 in (x' :: rest', i2)
                             end) l i' in (TL a l', r)
      | TM a l =>
          let '(l', r) := (fix go (l : list (tok * tok)) (idx : option N) : list (tok * tok) * option N :=
                             match l with
                             | [] => ([], idx)
                             | (k, v) :: rest => let '(k', i1) := mutate k idx kind param in
                                                 let '(v', i2) := mutate v i1 kind param in
                                                 let '(rest', i3) := go rest i2 in ((k', v') :: rest', i3)
                             end) l i' in (TM a l', r)
      end
  end.

Fixpoint apply_muts (t : tok) (l : list N) (fuel : nat) : tok * list N :=
  match fuel with
  | O => (t, l)
  | S f => match l with
           | idx :: kind :: param :: r => (fst (mutate t (Some idx) kind param), r)
           | _ => (t, l)
           end
  end.

Fixpoint apply_nmuts (t : tok) (n : nat) (l : list N) : tok * list N :=
  match n with
  | O => (t, l)
  | S m => match l with
           | idx :: kind :: param :: r => apply_nmuts (fst (mutate t (Some idx) kind param)) m r
           | _ => (t, [])
           end
  end.

Definition enc_world_handled (u : universe) (w : world) : list N :=
  let it := sort_by (fun p => enc_entity (fst p)) (w_iter w) in
  lenN it :: concat (map (fun p => enc_entity (fst p) :: enc_vals u (filter (fun c => mem_tid (fst c) HANDLED) (snd p))) it).

Definition run_serde (st : est) (w : world) (fmt reader : N) (q : query) (nmut : N) (l : list N) : list N * list N :=
  let u := e_u st in
  let tree := if N.eqb fmt 0 then row_ser HANDLED w q else col_ser HANDLED w q in
  let enc := enc_tok tree in
  let '(tree', rest) := apply_nmuts tree (N.to_nat nmut) l in
  let res :=
    if N.eqb fmt 0 then
      match row_de u HANDLED reader tree' with
      | DOk (w2, _) => 0 :: enc_world_handled u w2
      | DErr => [1]
      | DPanic _ => [9]
      end
    else
      match col_de u HANDLED reader tree' with
      | DOk w2 => 0 :: enc_world_handled u w2
      | DErr => [1]
      | DPanic _ => [9]
      end in
  ((if lengths_ok tree then 1 else 0) :: lenN enc :: enc ++ res, rest).

(* ---- archetype capacities (opcode 23): a shadow of Archetype::capacity() maintained from the
   lengths before and after each operation (Model/Layout.v).  Exact for operations that grow an
   archetype by consecutive allocate() calls, reserve it, or merge / install a column batch. ---- *)
Definition set_caps (st : est) (c : list (list N)) : est :=
  {| e_u := e_u st; e_ws := e_ws st; e_handles := e_handles st; e_prep := e_prep st; e_k := e_k st;
     e_guards := e_guards st; e_cells := e_cells st; e_caps := c |}.

Definition arch_index_of (w : world) (types : list tid) : option N := assoc_list types (w_index w).

(* capacities after an operation on one world *)
Definition caps_after (u : universe) (opc : N) (reserve_idx : option N) (reserve_n : N) (batch_new : bool)
           (old_w new_w : world) (old_caps : list N) : list N :=
  let old_n := lenN (w_archs old_w) in
  map (fun ia =>
         let '(i, a) := ia in
         let new_len := lenN (a_rows a) in
         if N.ltb i old_n then
           let old_len := match nthN (w_archs old_w) i with Some oa => lenN (a_rows oa) | None => 0 end in
           let cap := match nthN old_caps i with Some c => c | None => 0 end in
           let is_target := match reserve_idx with Some j => N.eqb i j | None => false end in
           if is_target then
             if N.eqb opc 15 || N.eqb opc 16 then
               (* merge: reserve(other.len); rows are copied in *)
               cap_reserve cap (if N.eqb opc 16 then new_len - reserve_n else old_len) reserve_n
             else
               (* reserve::<T>(n) / spawn_batch: reserve then consecutive allocate() calls *)
               let c1 := cap_reserve cap old_len reserve_n in
               cap_push_many c1 old_len (new_len - old_len)
           else cap_push_many cap old_len (new_len - old_len)
         else
           (* an archetype created by this operation *)
           let is_target := match reserve_idx with Some j => N.eqb i j | None => false end in
           if is_target && batch_new then cap_batch reserve_n
           else if is_target then cap_push_many (cap_reserve 0 0 reserve_n) 0 new_len
           else cap_push_many 0 0 new_len)
      (combine (seqN 0 (lenN (w_archs new_w))) (w_archs new_w)).

(* which archetype an operation reserves / installs a batch into, and by how much *)
Definition caps_hint (u : universe) (opc : N) (args : list N) (new_w : world) : option N * N :=
  match opc with
  | 13 => let '(ts, r) := dec_types args in
          (arch_index_of new_w (tsort u ts), match r with n :: _ => n | [] => 0 end)
  | 14 | 15 | 16 => let '(ts, r) := dec_types args in
                    (arch_index_of new_w (if N.eqb opc 14 then tsort u ts else dedup_sorted (tsort u ts)),
                     match r with n :: _ => n | [] => 0 end)
  | _ => (None, 0)
  end.

Definition caps_post (st st' : est) (opc : N) (l : list N) : est :=
  match l with
  | wi :: args0 =>
      (* the partially consumed batch iterators (18, 19) grow storage exactly like 14 and 15 *)
      let args := if N.eqb opc 18 || N.eqb opc 19 then tl args0 else args0 in
      let opc := if N.eqb opc 18 then 14 else if N.eqb opc 19 then 15 else opc in
      if (N.leb 1 opc && N.leb opc 17) || N.eqb opc 24 || N.eqb opc 25 || N.eqb opc 53 || N.eqb opc 54 || N.eqb opc 64 then
        let u := e_u st in
        let upd (st'' : est) (w : N) :=
          match nthN (e_ws st) w, nthN (e_ws st') w with
          | Some so, Some sn =>
              let '(ri, rn) := if N.eqb w wi then caps_hint u opc args (ws_world sn) else (None, 0) in
              let batch_new := match ri with
                               | Some j => N.leb (lenN (w_archs (ws_world so))) j && (N.eqb opc 15 || N.eqb opc 16)
                               | None => false end in
              let old_caps := match nthN (e_caps st'') w with Some c => c | None => [] end in
              (* structural operations flush first: the reserved entities are pushed to archetype 0
                 before anything is removed *)
              let '(mid_w, mid_caps) :=
                match w_flush (ws_world so) with
                | Done wf => if N.eqb opc 10 || N.eqb opc 11 || needs_flush (w_ents (ws_world sn)) then (ws_world so, old_caps)
                             else (wf, caps_after u 0 None 0 false (ws_world so) wf old_caps)
                | Panic _ => (ws_world so, old_caps)
                end in
              set_caps st'' (updN (e_caps st'') w (caps_after u opc ri rn batch_new mid_w (ws_world sn) mid_caps))
          | _, _ => st''
          end in
        (* container spawns carry the world index in another position; take_into touches both worlds *)
        let target := if N.eqb opc 53 || N.eqb opc 54 || N.eqb opc 64 then match args with x :: _ => x | [] => 0 end else wi in
        if N.eqb opc 8 then upd (upd st' 0) 1 else upd st' target
      else st'
  | [] => st'
  end.

(* one operation; returns the new state, the rest of the script and the observation *)
Definition exec_op (st : est) (opc : N) (l : list N) : est * list N * list N :=
  let u := e_u st in
  if N.leb 50 opc && N.leb opc 86 then exec_cont st opc l else
  if N.leb 100 opc && N.leb opc 116 then exec_guard st opc l else
  if N.eqb opc 23 then
    (st, l, concat (map (fun wi => match get_w st wi with
                                   | None => [7]
                                   | Some w => 5 :: lenN (w_archs w) :: (match nthN (e_caps st) wi with Some c => c | None => [] end)
                                   end) [0; 1])) else
  if N.eqb opc 22 then
    (* drop every container *)
    (set_k st conts_new, l, out_ok u [] (conts_drop_all (e_k st))) else
  match l with
  | [] => (st, [], [])
  | wi :: args =>
    match opc with
    | 20 =>
        (* probe: n hrefs; dumps both worlds and the view of each handle from both *)
        let '(hs, rest) := dec_hrefs st wi args in
        let dump := concat (map (fun s => if N.eqb (ws_state s) 0 then 5 :: enc_world u (ws_world s) else [7]) (e_ws st)) in
        let probes := concat (map (fun h => concat (map (fun s =>
                         if N.eqb (ws_state s) 0 then enc_probe_handle u (ws_world s) h else [7]) (e_ws st))) hs) in
        (st, rest, dump ++ probes)
    | 21 =>
        (* drop the world: everything still stored is dropped *)
        match nthN (e_ws st) wi with
        | Some s => if N.eqb (ws_state s) 2 then (st, args, [8]) else
                    let '(w', d) := w_clear (ws_world s) in
                    (set_w st wi w' 2, args, out_ok u [] d)
        | None => (st, args, [8])
        end
    | 90 =>
        match args with
        | fmt :: reader :: _ :: r1 =>
            let '(q, r2) := dec_ast r1 in
            match r2 with
            | nmut :: r3 =>
                match get_w st wi with
                | None => (st, dropN (3 * nmut) r3, [8])
                | Some w => let '(obs, rest) := run_serde st w fmt reader q nmut r3 in (st, rest, obs)
                end
            | [] => (st, [], [])
            end
        | _ => (st, [], [])
        end
    | 30 =>
        match args with
        | qidx :: path :: arg :: n :: r =>
            let ast := takeN n r in
            let rest := dropN n r in
            let '(q, _) := dec_query (S (length ast)) ast in
            match get_w st wi with
            | None => (st, rest, [8])
            | Some w => let '(st', obs) := run_query st wi w qidx path arg q in (st', rest, obs)
            end
        | _ => (st, [], [])
        end
    | _ =>
      match get_w st wi with
      | None =>
          (* the world is gone: consume the arguments, report "skipped" *)
          let rest :=
            match opc with
            | 1 => snd (dec_bundle u args)
            | 2 | 3 => snd (dec_bundle u (snd (dec_href st args)))
            | 4 => snd (dec_types (snd (dec_href st args)))
            | 5 => snd (dec_bundle u (snd (dec_types (snd (dec_href st args)))))
            | 24 => snd (dec_types (tl (snd (dec_href st args))))
            | 25 => snd (dec_bundle u (snd (dec_types (tl (snd (dec_href st args))))))
            | 6 | 7 | 8 => snd (dec_href st args)
            | 11 => tl args
            | 13 => tl (snd (dec_types args))
            | 14 | 15 | 17 => let '(ts, r) := dec_types args in
                         match r with n :: r' => snd (dec_rows ts n r') | [] => [] end
            | 18 | 19 => let '(ts, r) := dec_types (tl args) in
                         match r with n :: r' => snd (dec_rows ts n r') | [] => [] end
            | 16 => let '(ts, r) := dec_types args in
                    match r with n :: r' => snd (dec_rows ts n (snd (dec_hrefs st n r'))) | [] => [] end
            | _ => args
            end in
          let k := match opc with
                   | 1 | 2 | 8 | 10 => 1
                   | 11 => match args with n :: _ => n | [] => 0 end
                   | 14 | 15 | 16 | 17 => match snd (dec_types args) with n :: _ => n | [] => 0 end
                   | 18 | 19 => match snd (dec_types (tl args)) with n :: _ => n | [] => 0 end
                   | _ => 0
                   end in
          (add_handles st (repeatN NOHANDLE k), rest, [8])
      | Some w =>
        match opc with
        | 1 =>
            let '(b, rest) := dec_bundle u args in
            match w_spawn u w b with
            | Done (w', h) => (add_handles (set_w st wi w' 0) [h], rest, out_ok u [enc_entity h] [])
            | Panic c => (add_handles (set_w st wi w 1) [NOHANDLE], rest, out_panic u c (b_items b))
            end
        | 2 =>
            let '(h, r1) := dec_href st args in
            let '(b, rest) := dec_bundle u r1 in
            if N.ltb MAX_AT_ID (e_id h) then (add_handles st [h], rest, [8]) else
            match w_spawn_at u w h b with
            | Done (w', d) => (add_handles (set_w st wi w' 0) [h], rest, out_ok u [] d)
            | Panic c =>
                (* the entity that held the id has already been despawned when spawn_inner panics *)
                let '(wp, d) := match w_flush w with
                                | Done w0 => match alloc_at (w_ents w0) h with
                                             | Done (e, Some lo) =>
                                                 match detach_row (with_ents w0 e) lo with
                                                 | Done (w', r) => (w', r_vals r)
                                                 | Panic _ => (w, [])
                                                 end
                                             | _ => (w, [])
                                             end
                                | Panic _ => (w, [])
                                end in
                (add_handles (set_w st wi wp 1) [h], rest, out_panic u c (d ++ b_items b))
            end
        | 3 =>
            let '(h, r1) := dec_href st args in
            let '(b, rest) := dec_bundle u r1 in
            match w_insert u w h b with
            | Done (w', WOk d) => (set_w st wi w' 0, rest, out_ok u [] d)
            | Done (w', _) => (set_w st wi w' 0, rest, out_err u 1 (b_items b))
            | Panic c => (set_w st wi w 1, rest, out_panic u c (b_items b))
            end
        | 4 | 24 =>
            (* remove::<S>: S a static tuple (4, key tag 0) or a derived Bundle struct (24: the kind follows the handle) *)
            let '(h, r0) := dec_href st args in
            let '(tag, r1) := if N.eqb opc 24 then match r0 with k :: r => (k, r) | [] => (0, []) end else (0, r0) in
            let '(ts, rest) := dec_types r1 in
            match w_remove u w h (tag :: ts) ts with
            | Done (w', WOk taken) => (set_w st wi w' 0, rest, out_ok u (vals_flat (map (zval u) taken)) [])
            | Done (w', WNoSuchEntity) => (set_w st wi w' 0, rest, out_err u 1 [])
            | Done (w', WMissing) => (set_w st wi w' 0, rest, out_err u 2 [])
            | Panic c => (set_w st wi w 1, rest, out_panic u c [])
            end
        | 5 | 25 =>
            let '(h, r0) := dec_href st args in
            let '(tag, r1) := if N.eqb opc 25 then match r0 with k :: r => (k, r) | [] => (0, []) end else (0, r0) in
            let '(ts, r2) := dec_types r1 in
            let '(b, rest) := dec_bundle u r2 in
            match w_exchange u w h (tag :: ts) ts b with
            | Done (w', WOk (taken, d)) => (set_w st wi w' 0, rest, out_ok u (vals_flat (map (zval u) taken)) d)
            | Done (w', WNoSuchEntity) => (set_w st wi w' 0, rest, out_err u 1 (b_items b))
            | Done (w', WMissing) => (set_w st wi w' 0, rest, out_err u 2 (b_items b))
            | Panic c => (set_w st wi w 1, rest, out_panic u c (b_items b))
            end
        | 6 =>
            let '(h, rest) := dec_href st args in
            match w_despawn w h with
            | Done (w', WOk d) => (set_w st wi w' 0, rest, out_ok u [] d)
            | Done (w', _) => (set_w st wi w' 0, rest, out_err u 1 [])
            | Panic c => (set_w st wi w 1, rest, out_panic u c [])
            end
        | 7 =>
            let '(h, rest) := dec_href st args in
            match w_take_drop w h with
            | Done (w', WOk d) => (set_w st wi w' 0, rest, out_ok u [] d)
            | Done (w', _) => (set_w st wi w' 0, rest, out_err u 1 [])
            | Panic c => (set_w st wi w 1, rest, out_panic u c [])
            end
        | 8 =>
            let '(h, rest) := dec_href st args in
            let wj := 1 - wi in
            match get_w st wj with
            | None => (add_handles st [NOHANDLE], rest, [8])
            | Some w2 =>
                match w_take_into u w w2 h with
                | Done (w', w2', WOk h2) =>
                    (add_handles (set_w (set_w st wi w' 0) wj w2' 0) [h2], rest, out_ok u [enc_entity h2] [])
                | Done (w', w2', _) => (add_handles (set_w (set_w st wi w' 0) wj w2' 0) [NOHANDLE], rest, out_err u 1 [])
                | Panic c => (add_handles (set_w (set_w st wi w 1) wj w2 1) [NOHANDLE], rest, out_panic u c [])
                end
            end
        | 9 =>
            let '(w', d) := w_clear w in (set_w st wi w' 0, args, out_ok u [] d)
        | 10 =>
            match reserve_entity (w_ents w) with
            | Done (e, h) => (add_handles (set_w st wi (with_ents w e) 0) [h], args, out_ok u [enc_entity h] [])
            | Panic c => (add_handles (set_w st wi w 1) [NOHANDLE], args, out_panic u c [])
            end
        | 11 =>
            match args with
            | n :: rest =>
                match reserve_entities (w_ents w) n with
                | Done (e, hs) => (add_handles (set_w st wi (with_ents w e) 0) hs, rest, out_ok u (map enc_entity hs) [])
                | Panic c => (add_handles (set_w st wi w 1) (repeatN NOHANDLE n), rest, out_panic u c [])
                end
            | [] => (st, [], [])
            end
        | 12 =>
            match w_flush w with
            | Done w' => (set_w st wi w' 0, args, out_ok u [] [])
            | Panic c => (set_w st wi w 1, args, out_panic u c [])
            end
        | 13 =>
            let '(ts, r1) := dec_types args in
            match w_reserve u w (0 :: ts) ts with
            | Done (w', _) => (set_w st wi w' 0, tl r1, out_ok u [] [])
            | Panic c => (set_w st wi w 1, tl r1, out_panic u c [])
            end
        | 14 =>
            let '(ts, r1) := dec_types args in
            match r1 with
            | n :: r2 =>
                let '(rows, rest) := dec_rows ts n r2 in
                match w_spawn_batch u w (0 :: ts) ts rows with
                | Done (w', hs) => (add_handles (set_w st wi w' 0) hs, rest, out_ok u (map enc_entity hs) [])
                | Panic c => (add_handles (set_w st wi w 1) (repeatN NOHANDLE n), rest, out_panic u c (concat rows))
                end
            | [] => (st, [], [])
            end
        | 15 =>
            let '(ts, r1) := dec_types args in
            match r1 with
            | n :: r2 =>
                let '(rows0, rest) := dec_rows ts n r2 in
                let sorted := dedup_sorted (tsort u ts) in
                let rows := map (norm_row sorted) rows0 in
                match w_spawn_column_batch w sorted rows with
                | Done (w', hs) => (add_handles (set_w st wi w' 0) hs, rest, out_ok u (map enc_entity hs) [])
                | Panic c => (add_handles (set_w st wi w 1) (repeatN NOHANDLE n), rest, out_panic u c (concat rows0))
                end
            | [] => (st, [], [])
            end
        | 16 =>
            let '(ts, r1) := dec_types args in
            match r1 with
            | n :: r2 =>
                let '(hs, r3) := dec_hrefs st n r2 in
                let '(rows0, rest) := dec_rows ts n r3 in
                let sorted := dedup_sorted (tsort u ts) in
                let rows := map (norm_row sorted) rows0 in
                if existsb (fun h => N.ltb MAX_AT_ID (e_id h)) hs then (add_handles st hs, rest, [8]) else
                match w_spawn_column_batch_at w hs sorted rows with
                | (w', None, d) => (add_handles (set_w st wi w' 0) hs, rest, out_ok u [] d)
                | (w', Some c, d) => (add_handles (set_w st wi w' 1) hs, rest, out_panic u c d)
                end
            | [] => (st, [], [])
            end
        | 17 =>
            (* Extend<B> for World: a fold of spawn over the rows (static tuples); the caller does not get
               the handles: both sides append them to the table sorted by bits.  The key is the tuple type of
               the row itself: it is 0 :: ts for every complete row; a row cut short by the end of the
               script is the (shorter) tuple it actually is *)
            let '(ts, r1) := dec_types args in
            match r1 with
            | n :: r2 =>
                let '(rows, rest) := dec_rows ts n r2 in
                let '(w', hs, pan) :=
                  fold_left (fun acc row =>
                               let '(w0, hs0, pan0) := acc in
                               match pan0 with
                               | Some _ => acc
                               | None => match w_spawn u w0 {| b_key := Some (0 :: map fst row); b_items := row |} with
                                         | Done (w1, h) => (w1, hs0 ++ [h], None)
                                         | Panic c => (w0, hs0, Some c)
                                         end
                               end) rows (w, [], None) in
                match pan with
                | None => (add_handles (set_w st wi w' 0) (sort_by to_bits hs), rest, out_ok u [lenN hs] [])
                | Some c => (add_handles (set_w st wi w' 1) (repeatN NOHANDLE n), rest, out_panic u c (concat (dropN (lenN hs) rows)))
                end
            | [] => (st, [], [])
            end
        | 18 | 19 =>
            (* spawn_batch / spawn_column_batch whose iterator is dropped after k handles were taken from it:
               Drop spawns the rest; the first k handles are known in order, the others are appended sorted *)
            match args with
            | k :: args' =>
                let '(ts, r1) := dec_types args' in
                match r1 with
                | n :: r2 =>
                    let '(rows0, rest) := dec_rows ts n r2 in
                    let res := if N.eqb opc 18 then w_spawn_batch u w (0 :: ts) ts rows0
                               else let sorted := dedup_sorted (tsort u ts) in
                                    w_spawn_column_batch w sorted (map (norm_row sorted) rows0) in
                    match res with
                    | Done (w', hs) =>
                        let hs' := takeN k hs ++ sort_by to_bits (dropN k hs) in
                        (add_handles (set_w st wi w' 0) hs', rest, out_ok u (map enc_entity (takeN k hs)) [])
                    | Panic c => (add_handles (set_w st wi w 1) (repeatN NOHANDLE n), rest, out_panic u c (concat rows0))
                    end
                | [] => (st, [], [])
                end
            | [] => (st, [], [])
            end
        | _ => (st, [], [])
        end
      end
    end
  end.

Fixpoint exec_script (fuel : nat) (st : est) (l : list N) : list N :=
  match fuel with
  | O => []
  | S f =>
      match l with
      | [] => []
      | opc :: r =>
          let '(st', rest, obs) := exec_op st opc r in
          (lenN obs :: obs) ++ exec_script f (caps_post st st' opc r) rest
      end
  end.

Fixpoint dec_universe (fuel : nat) (n : N) (l : list N) : universe * list N :=
  match fuel with
  | O => ([], l)
  | S f => if N.eqb n 0 then ([], l) else
           match l with
           | a :: s :: r :: tl => let '(u, rest) := dec_universe f (N.pred n) tl in
                                  ({| ti_align := a; ti_size := s; ti_rank := r |} :: u, rest)
           | _ => ([], [])
           end
  end.

Definition run_world (args : list N) : list N :=
  match args with
  | n :: r =>
      let '(u, script) := dec_universe (length r) n r in
      let st := {| e_u := u; e_ws := [{| ws_world := world_new; ws_state := 0 |}; {| ws_world := world_new; ws_state := 0 |}];
                   e_handles := []; e_prep := []; e_k := conts_new; e_guards := []; e_cells := [[]; []]; e_caps := [[0]; [0]] |} in
      exec_script (length script) st script
  | [] => []
  end.

(* Engine 2 (C10): a script and its twin (bundle fields permuted, representation switched) run in
   separate worlds; the harness additionally compares their final canonical states *)
Definition run_twin (args : list N) : list N :=
  match args with
  | n :: r =>
      let '(u, rest) := dec_universe (length r) n r in
      match rest with
      | la :: scripts =>
          let st := {| e_u := u; e_ws := [{| ws_world := world_new; ws_state := 0 |}; {| ws_world := world_new; ws_state := 0 |}];
                       e_handles := []; e_prep := []; e_k := conts_new; e_guards := []; e_cells := [[]; []]; e_caps := [[0]; [0]] |} in
          let a := takeN la scripts in
          let b := dropN la scripts in
          exec_script (length a) st a ++ exec_script (length b) st b
      | [] => []
      end
  | [] => []
  end.
