(* Component type universe, TypeInfo order, bundles *)
From Coq Require Import List NArith ZArith Bool.
From HecsV Require Import Base.ListN.
Import ListNotations.
Open Scope N_scope.

Definition tid := N.   (* index into the universe *)
Definition val := N.   (* component payload (a serial number) *)

(* rank: position of the type's TypeId in TypeId's total order (compiler-chosen, reported by the harness) *)
Record tinfo := { ti_align : N; ti_size : N; ti_rank : N }.
Definition universe := list tinfo.

Definition info_of (u : universe) (t : tid) : tinfo :=
  match nthN u t with Some i => i | None => {| ti_align := 1; ti_size := 0; ti_rank := 1000 + t |} end.

(* TypeInfo::cmp: alignment descending, ties broken by TypeId *)
Definition tcmp (u : universe) (a b : tid) : comparison :=
  match N.compare (ti_align (info_of u b)) (ti_align (info_of u a)) with
  | Eq => N.compare (ti_rank (info_of u a)) (ti_rank (info_of u b))
  | c => c
  end.

Definition tle (u : universe) (a b : tid) : bool :=
  match tcmp u a b with Gt => false | _ => true end.
Definition tlt (u : universe) (a b : tid) : bool :=
  match tcmp u a b with Lt => true | _ => false end.

(* sort_unstable on TypeInfo (elements comparing Equal are the same type, so stability is moot) *)
Fixpoint tinsert (u : universe) (x : tid) (l : list tid) : list tid :=
  match l with
  | [] => [x]
  | y :: t => if tle u x y then x :: l else y :: tinsert u x t
  end.
Definition tsort (u : universe) (l : list tid) : list tid := fold_right (tinsert u) [] l.

(* Archetype::assert_type_info: 0 = ok, 1 = duplicate, 2 = unsorted *)
Fixpoint assert_type_info (u : universe) (l : list tid) : N :=
  match l with
  | a :: ((b :: _) as t) =>
      match tcmp u a b with
      | Lt => assert_type_info u t
      | Eq => 1
      | Gt => 2
      end
  | _ => 0
  end.

Definition mem_tid (t : tid) (l : list tid) : bool := memN t l.

(* dedup of a sorted list (Vec::dedup) *)
Fixpoint dedup_sorted (l : list tid) : list tid :=
  match l with
  | a :: ((b :: _) as t) => if N.eqb a b then dedup_sorted t else a :: dedup_sorted t
  | _ => l
  end.

(* A bundle as the world sees it: optional static key (TypeId of the bundle type, modelled as
   tag :: field types in declaration order) and the components in the order `put` hands them over *)
Definition bkey := list N.
Record bundle := { b_key : option bkey; b_items : list (tid * val) }.

Definition b_types (b : bundle) : list tid := map fst (b_items b).

Fixpoint list_eqb (a b : list N) : bool :=
  match a, b with
  | [], [] => true
  | x :: a', y :: b' => N.eqb x y && list_eqb a' b'
  | _, _ => false
  end.

Fixpoint assoc_list {V} (k : list N) (m : list (list N * V)) : option V :=
  match m with
  | [] => None
  | (k', v) :: t => if list_eqb k k' then Some v else assoc_list k t
  end.

Fixpoint assoc_pair {V} (a : N) (k : list N) (m : list ((N * list N) * V)) : option V :=
  match m with
  | [] => None
  | ((a', k'), v) :: t => if N.eqb a a' && list_eqb k k' then Some v else assoc_pair a k t
  end.

(* last binding wins: components are written in order, later writes overwrite *)
Fixpoint lookup_last (t : tid) (items : list (tid * val)) : option val :=
  match items with
  | [] => None
  | (t', v) :: r => match lookup_last t r with
                    | Some v' => Some v'
                    | None => if N.eqb t t' then Some v else None
                    end
  end.

Fixpoint lookup_first (t : tid) (items : list (tid * val)) : option val :=
  match items with
  | [] => None
  | (t', v) :: r => if N.eqb t t' then Some v else lookup_first t r
  end.

(* the row an archetype with column types [types] holds after the writes [items] (None: some
   column was never written = uninitialised memory would be exposed) *)
Fixpoint mk_row (types : list tid) (items : list (tid * val)) : option (list (tid * val)) :=
  match types with
  | [] => Some []
  | t :: r => match lookup_last t items, mk_row r items with
              | Some v, Some row => Some ((t, v) :: row)
              | _, _ => None
              end
  end.
