(* Dynamic borrow checking (src/borrow.rs as a sequential cell, src/query.rs start_borrow /
   release_borrow, QueryBorrow, ViewBorrow, PreparedQueryBorrow, QueryOne, Ref/RefMut,
   ArchetypeColumn(Mut)).  The world is shared (&World) and therefore frozen while guards exist. *)
From Coq Require Import List NArith ZArith Bool.
From HecsV Require Import Base.ListN Model.EntityBits Model.Types Model.Entities Model.World Model.Query.
Import ListNotations.
Open Scope N_scope.

(* the sequential abstraction of AtomicBorrow (justified by C06): reader count and writer flag *)
Record cell := { cl_r : N; cl_w : bool }.
Definition cell_free : cell := {| cl_r := 0; cl_w := false |}.

(* borrow state of one world: (archetype index, type) -> cell; absent = free *)
Definition cells := list ((N * tid) * cell).

Fixpoint cell_get (cs : cells) (a : N) (t : tid) : cell :=
  match cs with
  | [] => cell_free
  | ((a', t'), c) :: r => if N.eqb a a' && N.eqb t t' then c else cell_get r a t
  end.
Definition cell_set (cs : cells) (a : N) (t : tid) (c : cell) : cells :=
  ((a, t), c) :: filter (fun p => negb (N.eqb (fst (fst p)) a && N.eqb (snd (fst p)) t)) cs.

(* AtomicBorrow::borrow / borrow_mut / release / release_mut *)
Definition borrow1 (cs : cells) (a : N) (t : tid) (uniq : bool) : option cells :=
  let c := cell_get cs a t in
  if uniq then
    if N.eqb (cl_r c) 0 && negb (cl_w c) then Some (cell_set cs a t {| cl_r := 0; cl_w := true |}) else None
  else
    if cl_w c then None else Some (cell_set cs a t {| cl_r := cl_r c + 1; cl_w := false |}).

Definition release1 (cs : cells) (a : N) (t : tid) (uniq : bool) : cells :=
  let c := cell_get cs a t in
  if uniq then cell_set cs a t {| cl_r := cl_r c; cl_w := false |}
  else cell_set cs a t {| cl_r := cl_r c - 1; cl_w := cl_w c |}.

(* borrow a list of columns in order, STOPPING at the first failure WITHOUT rolling back
   (the TODO in start_borrow; tuple Fetch::borrow) *)
Fixpoint borrow_list (cs : cells) (a : N) (cols : list (tid * bool)) : cells * bool :=
  match cols with
  | [] => (cs, true)
  | (t, u) :: r => match borrow1 cs a t u with
                   | Some cs' => borrow_list cs' a r
                   | None => (cs, false)
                   end
  end.

Fixpoint release_list (cs : cells) (a : N) (cols : list (tid * bool)) : cells :=
  match cols with
  | [] => cs
  | (t, u) :: r => release_list (release1 cs a t u) a r
  end.

(* start_borrow::<Q>(archetypes): skip empty archetypes; prepare; borrow *)
Fixpoint start_borrow (cs : cells) (i : N) (archs : list arch) (q : query) : cells * bool :=
  match archs with
  | [] => (cs, true)
  | a :: r =>
      match a_rows a with
      | [] => start_borrow cs (N.succ i) r q
      | _ =>
          match prepare (a_types a) q with
          | None => start_borrow cs (N.succ i) r q
          | Some s =>
              match borrow_list cs i (borrow_cols q s) with
              | (cs', true) => start_borrow cs' (N.succ i) r q
              | (cs', false) => (cs', false)
              end
          end
      end
  end.

Fixpoint release_borrow (cs : cells) (i : N) (archs : list arch) (q : query) : cells :=
  match archs with
  | [] => cs
  | a :: r =>
      match a_rows a with
      | [] => release_borrow cs (N.succ i) r q
      | _ =>
          match prepare (a_types a) q with
          | None => release_borrow cs (N.succ i) r q
          | Some s => release_borrow (release_list cs i (borrow_cols q s)) (N.succ i) r q
          end
      end
  end.

(* PreparedQueryBorrow::new / Drop over the cached (index, state) list *)
Fixpoint prepared_borrow (cs : cells) (archs : list arch) (q : query) (st : list (N * qstate)) : cells * bool :=
  match st with
  | [] => (cs, true)
  | (i, s) :: r =>
      match nthN archs i with
      | Some a =>
          match a_rows a with
          | [] => prepared_borrow cs archs q r
          | _ => match borrow_list cs i (borrow_cols q s) with
                 | (cs', true) => prepared_borrow cs' archs q r
                 | (cs', false) => (cs', false)
                 end
          end
      | None => (cs, false)
      end
  end.

Fixpoint prepared_release (cs : cells) (archs : list arch) (q : query) (st : list (N * qstate)) : cells :=
  match st with
  | [] => cs
  | (i, s) :: r =>
      match nthN archs i with
      | Some a => match a_rows a with
                  | [] => prepared_release cs archs q r
                  | _ => prepared_release (release_list cs i (borrow_cols q s)) archs q r
                  end
      | None => cs
      end
  end.

(* guard objects *)
Inductive guard :=
| GQuery (w : N) (q : query) (borrowed : bool)              (* QueryBorrow<Q> *)
| GView (w : N) (q : query)                                 (* ViewBorrow<Q>: borrowed at creation *)
| GPrep (w : N) (q : query) (st : list (N * qstate))        (* PreparedQueryBorrow<Q> *)
| GOne (w : N) (q : query) (a : N) (borrowed : bool)        (* QueryOne<Q> *)
| GRef (w : N) (a : N) (t : tid)                            (* Ref<T> *)
| GRefMut (w : N) (a : N) (t : tid)                         (* RefMut<T> *)
| GCol (w : N) (a : N) (t : tid) (held uniq : bool)         (* ArchetypeColumn / ArchetypeColumnMut *)
| GNone.

(* Drop *)
Definition guard_drop (cs : cells) (archs : list arch) (g : guard) : cells * bool (* panicked *) :=
  match g with
  | GQuery _ q true => (release_borrow cs 0 archs q, false)
  | GView _ q => (release_borrow cs 0 archs q, false)
  | GPrep _ q st => (prepared_release cs archs q st, false)
  | GOne _ q a true =>
      match nthN archs a with
      | Some ar => match prepare (a_types ar) q with
                   | Some s => (release_list cs a (borrow_cols q s), false)
                   | None => (cs, true)                       (* .unwrap() on None *)
                   end
      | None => (cs, true)
      end
  | GRef _ a t => (release1 cs a t false, false)
  | GRefMut _ a t => (release1 cs a t true, false)
  | GCol _ a t true u => (release1 cs a t u, false)
  | _ => (cs, false)
  end.

Definition guard_world (g : guard) : option N :=
  match g with
  | GQuery w _ _ | GView w _ | GPrep w _ _ | GOne w _ _ _ | GRef w _ _ | GRefMut w _ _ | GCol w _ _ _ _ => Some w
  | GNone => None
  end.

(* observable state of a cell through trial borrows: 0 free, 1 shared-held, 2 unique-held *)
Definition cell_code (c : cell) : N := if cl_w c then 2 else if N.eqb (cl_r c) 0 then 0 else 1.
(* the raw flag word of AtomicBorrow: reader count, plus 2^63 when uniquely borrowed *)
Definition cell_raw (c : cell) : N := cl_r c + (if cl_w c then 9223372036854775808 else 0).
