(* World (de)serialisation (src/serialize/row.rs, src/serialize/column.rs) over a token tree.
   The user's context is the documented example generalised: it handles the component types in [H],
   identifies them by their type index, and every component value is a number.
   Two readers for the decoder: self-describing (sequence/map lengths come from the data: serde_json)
   and length-driven (lengths come from the caller / a prefix: bincode). *)
From Coq Require Import List NArith ZArith Bool.
From HecsV Require Import Base.ListN Model.EntityBits Model.Types Model.Entities Model.World Model.Query Model.Containers.
Import ListNotations.
Open Scope N_scope.

Inductive tok :=
| TN (n : N)                              (* a number *)
| TL (ann : N) (l : list tok)             (* sequence / tuple, with the length announced to the serializer *)
| TM (ann : N) (l : list (tok * tok)).    (* map, with the announced length *)

(* value range of a component type in the harness: types of size 4 hold a u32 *)
Definition val_fits (u : universe) (t : tid) (v : N) : bool :=
  if N.eqb (ti_size (info_of u t)) 4 then N.ltb v 4294967296 else N.ltb v 18446744073709551616.

(* ================================================================= serialisation *)
(* row format: map Entity -> map ComponentId -> value, for every live entity in iteration order;
   serialize_satisfying keeps the entities whose archetype satisfies the query *)
Definition row_ser_entity (H : list tid) (vals : list (tid * val)) : tok :=
  let kept := concat (map (fun t => match lookup_first t vals with Some v => [(TN t, TN v)] | None => [] end) H) in
  TM (lenN kept) kept.

Definition row_ser (H : list tid) (w : world) (q : query) : tok :=
  let announced := sumN (map (fun a => match access (a_types a) q with Some _ => lenN (a_rows a) | None => 0 end) (w_archs w)) in
  TM announced
     (concat (map (fun a => match access (a_types a) q with
                            | Some _ => map (fun r => (TN (to_bits (handle_of w (r_id r))), row_ser_entity H (r_vals r))) (a_rows a)
                            | None => []
                            end) (w_archs w))).

(* column format: seq of archetypes (non-empty, satisfying the query); each a 4-tuple
   (entity count, component count, tuple of component ids, tuple (entities, column...)) *)
Definition col_ser_arch (H : list tid) (w : world) (a : arch) : tok :=
  let hs := filter (fun t => mem_tid t (a_types a)) H in
  let n := lenN (a_rows a) in
  TL 4 [TN n; TN (lenN hs);
        TL (lenN hs) (map TN hs);
        TL (lenN hs + 1)
           (TL n (map (fun r => TN (to_bits (handle_of w (r_id r)))) (a_rows a))
            :: map (fun t => TL n (map (fun r => match lookup_first t (r_vals r) with Some v => TN v | None => TN 0 end) (a_rows a))) hs)].

Definition col_ser (H : list tid) (w : world) (q : query) : tok :=
  let archs := filter (fun a => match a_rows a with [] => false | _ => match access (a_types a) q with Some _ => true | None => false end end) (w_archs w) in
  TL (lenN archs) (map (col_ser_arch H w) archs).

(* every announced length equals the number of children actually emitted *)
Fixpoint lengths_ok (t : tok) : bool :=
  match t with
  | TN _ => true
  | TL ann l => N.eqb ann (lenN l) && forallb lengths_ok l
  | TM ann l => N.eqb ann (lenN l) && forallb (fun p => lengths_ok (fst p) && lengths_ok (snd p)) l
  end.

(* ================================================================= deserialisation *)
Inductive dres (A : Type) := DOk (a : A) | DErr | DPanic (c : N).
Arguments DOk {A} a. Arguments DErr {A}. Arguments DPanic {A} c.

Definition of_outcome {A} (o : outcome A) : dres A := match o with Done a => DOk a | Panic c => DPanic c end.

(* readers: how many elements of a sequence the visitor gets to see, and whether leftovers are an error.
   self-describing (reader 0): all elements; the backend rejects leftovers the visitor did not consume.
   length-driven (reader 1): exactly the number the caller asks for (tuples) or the prefix (seq/map);
   fewer available = error (end of input). *)
Definition rd_seq (reader : N) (asked : N) (l : list tok) : option (list tok) :=
  if N.eqb reader 0 then Some l
  else if N.leb asked (lenN l) then Some (takeN asked l) else None.

(* sequences and maps whose length is not known to the caller: self-describing readers see every
   element; length-driven readers see as many as the prefix (the announced length) says *)
Definition rd_pref {A} (reader : N) (ann : N) (l : list A) : option (list A) :=
  if N.eqb reader 0 then Some l
  else if N.leb ann (lenN l) then Some (takeN ann l) else None.

Definition dec_num (t : tok) : option N := match t with TN n => Some n | _ => None end.
Definition dec_u32 (t : tok) : option N := match t with TN n => if N.ltb n 4294967296 then Some n else None | _ => None end.
Definition dec_entity (t : tok) : option entity :=
  match t with TN n => if N.ltb n 18446744073709551616 then from_bits n else None | _ => None end.

Definition MAX_DE_ID : N := 4096.     (* ids beyond this are not exercised: the code would allocate id+1 slots *)

(* ---- row: WorldVisitor::visit_map ---- *)
(* one entity's components into the (reused) EntityBuilder: later entries of a type replace earlier ones *)
Fixpoint row_de_comps (u : universe) (H : list tid) (c : common) (l : list (tok * tok)) (dropped : list (tid * val))
  : option (common * list (tid * val)) :=
  match l with
  | [] => Some (c, dropped)
  | (k, v) :: r =>
      match dec_u32 k, dec_num v with
      | Some t, Some x =>
          if mem_tid t H && val_fits u t x then
            let '(c', d, _) := common_add u c t x in row_de_comps u H c' r (dropped ++ d)
          else None
      | _, _ => None
      end
  end.

Fixpoint row_de_entities (u : universe) (H : list tid) (reader : N) (w : world) (c : common) (l : list (tok * tok))
         (dropped : list (tid * val)) : dres (world * list (tid * val)) * list (tid * val) :=
  match l with
  | [] => (DOk (w, dropped), dropped)
  | (k, v) :: r =>
      match dec_entity k with
      | None => (DErr, dropped)
      | Some h =>
          match v with
          | TM cann comps0 =>
              match match rd_pref reader cann comps0 with
                    | Some comps => row_de_comps u H c comps dropped
                    | None => None
                    end with
              | None => (DErr, dropped)       (* the builder (and what it holds) is dropped by the caller *)
              | Some (c', dropped') =>
                  if N.ltb MAX_DE_ID (e_id h) then (DErr, dropped') else
                  let b := built_bundle (builder_build u c') in
                  match w_spawn_at u w h b with
                  | Done (w', d) => row_de_entities u H reader w' (builder_after_put (builder_build u c')) r (dropped' ++ d)
                  | Panic p => (DPanic p, dropped')
                  end
              end
          | _ => (DErr, dropped)
          end
      end
  end.

Definition row_de (u : universe) (H : list tid) (reader : N) (t : tok) : dres (world * list (tid * val)) :=
  match t with
  | TM ann l0 => match rd_pref reader ann l0 with
                 | Some l => fst (row_de_entities u H reader world_new common_new l [])
                 | None => DErr
                 end
  | _ => DErr
  end.

(* ---- column: WorldVisitor::visit_seq / ArchetypeVisitor ---- *)
Fixpoint dec_all {A} (f : tok -> option A) (l : list tok) : option (list A) :=
  match l with
  | [] => Some []
  | x :: r => match f x, dec_all f r with Some a, Some rs => Some (a :: rs) | _, _ => None end
  end.

(* deserialize_column for each remembered id, in order: consumes one element of the components tuple
   per id; every value is pushed through a fresh writer *)
Fixpoint col_de_columns (u : universe) (reader : N) (ecount : N) (ids : list tid) (b : cbatch) (cols : list tok)
  : option (cbatch * list tok) :=
  match ids with
  | [] => Some (b, cols)
  | t :: r =>
      match cols with
      | [] => None                                        (* "end of components" *)
      | TL _ vs :: rest =>
          match rd_seq reader ecount vs with
          | None => None
          | Some seen =>
              match dec_all dec_num seen with
              | None => None
              | Some xs =>
                  if negb (forallb (val_fits u t) xs) then None else
                  match cbatch_push b t xs with
                  | None => None                          (* expect("unexpected component type") cannot happen: ids were declared *)
                  | Some (b', rejected) =>
                      match rejected with
                      | _ :: _ => None                    (* "extra component" *)
                      | [] =>
                          match col_of t (cb_cols b') with
                          | Some cur => if N.ltb (lenN cur) ecount then None           (* invalid_length *)
                                        else if N.eqb reader 0 && negb (N.eqb (lenN vs) (lenN seen)) then None
                                        else col_de_columns u reader ecount r b' rest
                          | None => None
                          end
                      end
                  end
              end
          end
      | _ :: _ => None
      end
  end.

Definition nodup_ids (hs : list entity) : bool :=
  (fix go (l : list N) : bool := match l with [] => true | x :: r => negb (memN x r) && go r end) (map e_id hs).

Definition col_de_arch (u : universe) (H : list tid) (reader : N) (w : world) (t : tok) : dres world :=
  match t with
  | TL _ elems =>
      match rd_seq reader 4 elems with
      | Some [TN ecount; TN ccount; TL _ ids; TL _ comps] =>
          if N.eqb reader 0 && negb (N.eqb (lenN elems) 4) then DErr else
          if negb (N.ltb ecount 4294967296) || negb (N.ltb ccount 4294967296) then DErr else
          match rd_seq reader ccount ids with
          | None => DErr
          | Some idtoks =>
              match dec_all dec_u32 idtoks with
              | None => DErr
              | Some idl =>
                  if negb (forallb (fun t => mem_tid t H) idl) then DErr else
                  let b := cbatch_new u idl ecount in
                  match rd_seq reader (ccount + 1) comps with
                  | None => DErr
                  | Some (TL _ ents :: cols) =>
                      match rd_seq reader ecount ents with
                      | None => DErr
                      | Some es =>
                          match dec_all dec_entity es with
                          | None => DErr
                          | Some hs =>
                              if negb (N.eqb (lenN hs) ecount) then DErr else
                              match col_de_columns u reader ecount idl b cols with
                              | None => DErr
                              | Some (b', leftover) =>
                                  if N.eqb reader 0 && match leftover with [] => false | _ => true end then DErr else
                                  if negb (cbatch_complete b') then DErr else
                                  if negb (nodup_ids hs) then DErr else
                                  if existsb (fun h => N.ltb MAX_DE_ID (e_id h)) hs then DErr else
                                  match w_spawn_column_batch_at w hs (cb_types b') (cbatch_rows b') with
                                  | (w', None, _) => DOk w'
                                  | (_, Some p, _) => DPanic p
                                  end
                              end
                          end
                      end
                  | Some _ => DErr
                  end
              end
          end
      | _ => DErr
      end
  | _ => DErr
  end.

Fixpoint col_de_archs (u : universe) (H : list tid) (reader : N) (w : world) (l : list tok) : dres world :=
  match l with
  | [] => DOk w
  | a :: r => match col_de_arch u H reader w a with
              | DOk w' => col_de_archs u H reader w' r
              | e => e
              end
  end.

Definition col_de (u : universe) (H : list tid) (reader : N) (t : tok) : dres world :=
  match t with
  | TL ann l0 => match rd_pref reader ann l0 with
                 | Some l => col_de_archs u H reader world_new l
                 | None => DErr
                 end
  | _ => DErr
  end.
