(* World, ArchetypeSet, Archetype (src/world.rs, src/archetype.rs, src/take.rs): structural
   operations on rows, one Gallina function per Rust method, same case splits, same order. *)
From Coq Require Import List NArith ZArith Bool.
From HecsV Require Import Base.ListN Model.EntityBits Model.Types Model.Entities.
Import ListNotations.
Open Scope N_scope.

Record row := { r_id : N; r_vals : list (tid * val) }.
Record arch := { a_types : list tid; a_rows : list row }.
Record itarget := { it_replaced : list tid; it_retained : list tid; it_index : N }.

Record world := {
  w_ents : entities;
  w_archs : list arch;
  w_index : list (list tid * N);            (* ArchetypeSet::index *)
  w_b2a : list (bkey * N);                  (* bundle_to_archetype *)
  w_ins : list ((N * bkey) * itarget);      (* insert_edges *)
  w_rem : list ((N * bkey) * N);            (* remove_edges *)
}.

Definition world_new : world :=
  {| w_ents := ents_empty; w_archs := [{| a_types := []; a_rows := [] |}];
     w_index := [([], 0)]; w_b2a := []; w_ins := []; w_rem := [] |}.

Definition with_ents (w : world) (e : entities) : world :=
  {| w_ents := e; w_archs := w_archs w; w_index := w_index w; w_b2a := w_b2a w; w_ins := w_ins w; w_rem := w_rem w |}.
Definition with_archs (w : world) (a : list arch) : world :=
  {| w_ents := w_ents w; w_archs := a; w_index := w_index w; w_b2a := w_b2a w; w_ins := w_ins w; w_rem := w_rem w |}.

Definition P_UNINIT : N := 7.   (* a column slot would be exposed without having been written *)

Definition bind {A B} (o : outcome A) (f : A -> outcome B) : outcome B :=
  match o with Done a => f a | Panic c => Panic c end.
Notation "'do' x <- o ; f" := (bind o (fun x => f)) (at level 200, x name, o at level 100, f at level 200).
Notation "'do' ' p <- o ; f" := (bind o (fun x => match x with p => f end))
  (at level 200, p pattern, o at level 100, f at level 200).

(* ---- Archetype ---- *)
Definition arch_len (a : arch) : N := lenN (a_rows a).

(* allocate(id) followed by the writes of the row's components *)
Definition arch_push (a : arch) (id : N) (vals : list (tid * val)) : arch * N :=
  ({| a_types := a_types a; a_rows := a_rows a ++ [{| r_id := id; r_vals := vals |}] |}, arch_len a).

(* remove(index, _) / move_to(index, _): swap-remove; returns the removed row and the id of the
   entity moved into the hole, if any *)
Definition arch_remove (a : arch) (idx : N) : outcome (arch * row * option N) :=
  let n := arch_len a in
  if N.eqb n 0 then Panic P_BOUNDS else
  let last := n - 1 in
  match nthN (a_rows a) idx, nthN (a_rows a) last with
  | Some r, Some l =>
      if N.eqb idx last then Done ({| a_types := a_types a; a_rows := removelastN (a_rows a) |}, r, None)
      else Done ({| a_types := a_types a; a_rows := removelastN (updN (a_rows a) idx l) |}, r, Some (r_id l))
  | _, _ => Panic P_BOUNDS
  end.

Definition fix_moved (e : entities) (moved : option N) (idx : N) : entities :=
  match moved with Some id => set_idx e id idx | None => e end.

Definition upd_arch (w : world) (i : N) (a : arch) : world := with_archs w (updN (w_archs w) i a).

Definition get_arch (w : world) (i : N) : outcome arch :=
  match nthN (w_archs w) i with Some a => Done a | None => Panic P_BOUNDS end.

(* remove row [l] of the world (dropping or not is the caller's business) and repair the moved entity *)
Definition detach_row (w : world) (l : loc) : outcome (world * row) :=
  do a <- get_arch w (l_arch l);
  do '(a', r, moved) <- arch_remove a (l_idx l);
  Done (with_ents (upd_arch w (l_arch l) a') (fix_moved (w_ents w) moved (l_idx l)), r).

(* ---- World::flush ---- *)
Fixpoint flush_ids (e : entities) (a0 : arch) (ids : list N) : entities * arch :=
  match ids with
  | [] => (e, a0)
  | id :: r => let '(a0', i) := arch_push a0 id [] in flush_ids (set_idx e id i) a0' r
  end.

Definition w_flush (w : world) : outcome world :=
  do '(e, ids) <- flush (w_ents w);
  do a0 <- get_arch w 0;
  let '(e', a0') := flush_ids e a0 ids in
  Done (with_ents (upd_arch w 0 a0') e').

(* ---- ArchetypeSet::get / insert ---- *)
Definition archs_get (u : universe) (w : world) (ids : list tid) (info : list tid) : outcome (world * N) :=
  match assoc_list ids (w_index w) with
  | Some i => Done (w, i)
  | None =>
      match assert_type_info u info with
      | 0 =>
          let x := lenN (w_archs w) in
          Done ({| w_ents := w_ents w; w_archs := w_archs w ++ [{| a_types := info; a_rows := [] |}];
                   w_index := (ids, x) :: w_index w; w_b2a := w_b2a w; w_ins := w_ins w; w_rem := w_rem w |}, x)
      | 1 => Panic P_DUP
      | _ => Panic P_UNSORTED
      end
  end.

Definition all_in (ts : list tid) (types : list tid) : bool := forallb (fun t => mem_tid t types) ts.

(* ---- World::spawn_inner ---- *)
Definition bundle_archetype (u : universe) (w : world) (b : bundle) : outcome (world * N) :=
  let ids := tsort u (b_types b) in
  match b_key b with
  | Some k =>
      match assoc_list k (w_b2a w) with
      | Some a => Done (w, a)
      | None =>
          do '(w1, a) <- archs_get u w ids ids;
          Done ({| w_ents := w_ents w1; w_archs := w_archs w1; w_index := w_index w1;
                   w_b2a := (k, a) :: w_b2a w1; w_ins := w_ins w1; w_rem := w_rem w1 |}, a)
      end
  | None => archs_get u w ids ids
  end.

Definition put_row (w : world) (aid : N) (id : N) (items : list (tid * val)) : outcome (world * N) :=
  do a <- get_arch w aid;
  if negb (all_in (map fst items) (a_types a)) then Panic P_BOUNDS else
  match mk_row (a_types a) items with
  | None => Panic P_UNINIT
  | Some vals => let '(a', i) := arch_push a id vals in Done (upd_arch w aid a', i)
  end.

Definition spawn_inner (u : universe) (w : world) (h : entity) (b : bundle) : outcome world :=
  do '(w1, aid) <- bundle_archetype u w b;
  do '(w2, i) <- put_row w1 aid (e_id h) (b_items b);
  Done (with_ents w2 (set_loc (w_ents w2) (e_id h) {| l_arch := aid; l_idx := i |})).

(* ---- ArchetypeSet::get_insert_target: the parallel iteration over two sorted lists ---- *)
Fixpoint advance (u : universe) (rest : list tid) (ty : tid) (retained : list tid) : list tid * list tid :=
  match rest with
  | s :: r => if tle u s ty
              then advance u r ty (if N.eqb s ty then retained else retained ++ [s])
              else (rest, retained)
  | [] => ([], retained)
  end.

Fixpoint merge_loop (u : universe) (types : list tid) (new_types : list tid) (rest : list tid)
         (added replaced retained : list tid) : list tid * list tid * list tid * list tid :=
  match new_types with
  | [] => (rest, added, replaced, retained)
  | ty :: nt =>
      let '(rest', retained') := advance u rest ty retained in
      if mem_tid ty types
      then merge_loop u types nt rest' added (replaced ++ [ty]) retained'
      else merge_loop u types nt rest' (added ++ [ty]) replaced retained'
  end.

Definition get_insert_target (u : universe) (w : world) (src : N) (b : bundle) : outcome (world * itarget) :=
  do a <- get_arch w src;
  let new_types := tsort u (b_types b) in
  match assert_type_info u new_types with
  | 0 =>
      let '(rest, added, replaced, retained) := merge_loop u (a_types a) new_types (a_types a) [] [] [] in
      let info := tsort u (a_types a ++ added) in
      do '(w1, i) <- archs_get u w info info;
      Done (w1, {| it_replaced := replaced; it_retained := retained ++ rest; it_index := i |})
  | 1 => Panic P_DUP
  | _ => Panic P_UNSORTED
  end.

Definition insert_target (u : universe) (w : world) (origin : N) (b : bundle) : outcome (world * itarget) :=
  match b_key b with
  | None => get_insert_target u w origin b
  | Some k =>
      match assoc_pair origin k (w_ins w) with
      | Some t => Done (w, t)
      | None =>
          do '(w1, t) <- get_insert_target u w origin b;
          Done ({| w_ents := w_ents w1; w_archs := w_archs w1; w_index := w_index w1; w_b2a := w_b2a w1;
                   w_ins := ((origin, k), t) :: w_ins w1; w_rem := w_rem w1 |}, t)
      end
  end.

Fixpoint lookup_all (ts : list tid) (vals : list (tid * val)) : option (list (tid * val)) :=
  match ts with
  | [] => Some []
  | t :: r => match lookup_first t vals, lookup_all r vals with
              | Some v, Some l => Some ((t, v) :: l)
              | _, _ => None
              end
  end.

Definition get_row (w : world) (l : loc) : outcome (arch * row) :=
  do a <- get_arch w (l_arch l);
  match nthN (a_rows a) (l_idx l) with Some r => Done (a, r) | None => Panic P_BOUNDS end.

(* overwrite components of a row in place *)
Fixpoint overwrite (vals : list (tid * val)) (items : list (tid * val)) : list (tid * val) :=
  match vals with
  | [] => []
  | (t, v) :: r => (t, match lookup_last t items with Some v' => v' | None => v end) :: overwrite r items
  end.

(* ---- World::insert_inner: returns the dropped (replaced) components ---- *)
Definition insert_inner (u : universe) (w : world) (h : entity) (b : bundle) (origin : N) (l : loc)
  : outcome (world * list (tid * val)) :=
  do '(w1, t) <- insert_target u w origin b;
  do '(sa, sr) <- get_row w1 l;
  match lookup_all (it_replaced t) (r_vals sr) with
  | None => Panic P_BOUNDS
  | Some dropped =>
      if N.eqb (it_index t) (l_arch l) then
        if negb (all_in (b_types b) (a_types sa)) then Panic P_BOUNDS else
        let r' := {| r_id := r_id sr; r_vals := overwrite (r_vals sr) (b_items b) |} in
        Done (upd_arch w1 (l_arch l) {| a_types := a_types sa; a_rows := updN (a_rows sa) (l_idx l) r' |}, dropped)
      else
        match lookup_all (it_retained t) (r_vals sr) with
        | None => Panic P_BOUNDS
        | Some kept =>
            do '(w2, ti) <- put_row w1 (it_index t) (e_id h) (b_items b ++ kept);
            let w3 := with_ents w2 (set_loc (w_ents w2) (e_id h) {| l_arch := it_index t; l_idx := ti |}) in
            do '(w4, _) <- detach_row w3 l;
            Done (w4, dropped)
        end
  end.

(* ---- World::remove_target ---- *)
Definition remove_target (u : universe) (w : world) (old : N) (key : bkey) (removed : list tid) : outcome (world * N) :=
  match assoc_pair old key (w_rem w) with
  | Some t => Done (w, t)
  | None =>
      do a <- get_arch w old;
      let info := filter (fun x => negb (mem_tid x removed)) (a_types a) in
      do '(w1, i) <- archs_get u w info info;
      Done ({| w_ents := w_ents w1; w_archs := w_archs w1; w_index := w_index w1; w_b2a := w_b2a w1;
               w_ins := w_ins w1; w_rem := ((old, key), i) :: w_rem w1 |}, i)
  end.

(* results of fallible world operations *)
Inductive wres (A : Type) := WOk (a : A) | WNoSuchEntity | WMissing.
Arguments WOk {A} a. Arguments WNoSuchEntity {A}. Arguments WMissing {A}.

Definition dup_check (u : universe) (ts : list tid) : outcome unit :=
  match assert_type_info u (tsort u ts) with 0 => Done tt | 1 => Panic P_DUP | _ => Panic P_UNSORTED end.

(* ---- the public operations ---- *)
Definition w_spawn (u : universe) (w : world) (b : bundle) : outcome (world * entity) :=
  do w0 <- w_flush w;
  do '(e, h) <- alloc (w_ents w0);
  do w1 <- spawn_inner u (with_ents w0 e) h b;
  Done (w1, h).

(* spawn_at: returns the components dropped with the entity that held the id *)
Definition w_spawn_at (u : universe) (w : world) (h : entity) (b : bundle) : outcome (world * list (tid * val)) :=
  do w0 <- w_flush w;
  do '(e, ol) <- alloc_at (w_ents w0) h;
  let w1 := with_ents w0 e in
  do '(w2, dropped) <- match ol with
                       | Some l => do '(w', r) <- detach_row w1 l; Done (w', r_vals r)
                       | None => Done (w1, [])
                       end;
  do w3 <- spawn_inner u w2 h b;
  Done (w3, dropped).

Definition w_insert (u : universe) (w : world) (h : entity) (b : bundle) : outcome (world * wres (list (tid * val))) :=
  do w0 <- w_flush w;
  match get (w_ents w0) h with
  | None => Done (w0, WNoSuchEntity)
  | Some l => do '(w1, d) <- insert_inner u w0 h b (l_arch l) l; Done (w1, WOk d)
  end.

(* remove::<T>: key/rtypes describe T (field types in declaration order); returns the removed values *)
Definition w_remove (u : universe) (w : world) (h : entity) (key : bkey) (rtypes : list tid)
  : outcome (world * wres (list (tid * val))) :=
  do w0 <- w_flush w;
  match get_mut (w_ents w0) h with
  | None => Done (w0, WNoSuchEntity)
  | Some l =>
      do '(sa, sr) <- get_row w0 l;
      do 'tt <- dup_check u rtypes;
      match lookup_all rtypes (r_vals sr) with
      | None => Done (w0, WMissing)
      | Some taken =>
          do '(w1, target) <- remove_target u w0 (l_arch l) key rtypes;
          if N.eqb (l_arch l) target then Done (w1, WOk taken) else
          do ta <- get_arch w1 target;
          let kept := filter (fun p => mem_tid (fst p) (a_types ta)) (r_vals sr) in
          do '(w2, ti) <- put_row w1 target (e_id h) kept;
          let w3 := with_ents w2 (set_loc (w_ents w2) (e_id h) {| l_arch := target; l_idx := ti |}) in
          do '(w4, _) <- detach_row w3 l;
          Done (w4, WOk taken)
      end
  end.

(* exchange::<S, T>: returns (removed values, dropped values) *)
Definition w_exchange (u : universe) (w : world) (h : entity) (key : bkey) (rtypes : list tid) (b : bundle)
  : outcome (world * wres (list (tid * val) * list (tid * val))) :=
  do w0 <- w_flush w;
  match get (w_ents w0) h with
  | None => Done (w0, WNoSuchEntity)
  | Some l =>
      do '(sa, sr) <- get_row w0 l;
      do 'tt <- dup_check u rtypes;
      match lookup_all rtypes (r_vals sr) with
      | None => Done (w0, WMissing)
      | Some taken =>
          do '(w1, mid) <- remove_target u w0 (l_arch l) key rtypes;
          do '(w2, d) <- insert_inner u w1 h b mid l;
          Done (w2, WOk (taken, d))
      end
  end.

Definition w_despawn (w : world) (h : entity) : outcome (world * wres (list (tid * val))) :=
  do w0 <- w_flush w;
  do r <- free (w_ents w0) h;
  match r with
  | None => Done (w0, WNoSuchEntity)
  | Some (e, l) => do '(w1, r) <- detach_row (with_ents w0 e) l; Done (w1, WOk (r_vals r))
  end.

(* take(entity) then dropping the TakenEntity: same observable effect as despawn, different code path *)
Definition w_take_drop (w : world) (h : entity) : outcome (world * wres (list (tid * val))) :=
  do w0 <- w_flush w;
  match get (w_ents w0) h with
  | None => Done (w0, WNoSuchEntity)
  | Some l =>
      do '(w1, r) <- detach_row w0 l;
      do f <- free (w_ents w1) h;
      match f with
      | None => Panic P_BOUNDS             (* .unwrap() *)
      | Some (e, _) => Done (with_ents w1 e, WOk (r_vals r))
      end
  end.

(* take(entity) from [w], spawn the TakenEntity into [w2] *)
Definition w_take_into (u : universe) (w w2 : world) (h : entity) : outcome (world * world * wres entity) :=
  do w0 <- w_flush w;
  match get (w_ents w0) h with
  | None => Done (w0, w2, WNoSuchEntity)
  | Some l =>
      do '(sa, sr) <- get_row w0 l;
      do '(w2', h2) <- w_spawn u w2 {| b_key := None; b_items := r_vals sr |};
      do '(w1, _) <- detach_row w0 l;
      do f <- free (w_ents w1) h;
      match f with
      | None => Panic P_BOUNDS
      | Some (e, _) => Done (with_ents w1 e, w2', WOk h2)
      end
  end.

Definition w_clear (w : world) : world * list (tid * val) :=
  ({| w_ents := ents_clear (w_ents w);
      w_archs := map (fun a => {| a_types := a_types a; a_rows := [] |}) (w_archs w);
      w_index := w_index w; w_b2a := w_b2a w; w_ins := w_ins w; w_rem := w_rem w |},
   concat (map (fun a => concat (map r_vals (a_rows a))) (w_archs w))).

(* reserve::<T>(n) / reserve_inner: may create T's archetype *)
Definition w_reserve (u : universe) (w : world) (key : bkey) (types : list tid) : outcome (world * N) :=
  do w0 <- w_flush w;
  bundle_archetype u w0 {| b_key := Some key; b_items := map (fun t => (t, 0)) types |}.

(* spawn_batch(iter) fully consumed *)
Fixpoint spawn_batch_loop (w : world) (aid : N) (items : list (list (tid * val))) (acc : list entity)
  : outcome (world * list entity) :=
  match items with
  | [] => Done (w, acc)
  | it :: r =>
      do '(e, h) <- alloc (w_ents w);
      do '(w1, i) <- put_row (with_ents w e) aid (e_id h) it;
      spawn_batch_loop (with_ents w1 (set_loc (w_ents w1) (e_id h) {| l_arch := aid; l_idx := i |})) aid r (acc ++ [h])
  end.

Definition w_spawn_batch (u : universe) (w : world) (key : bkey) (types : list tid) (items : list (list (tid * val)))
  : outcome (world * list entity) :=
  do '(w0, aid) <- w_reserve u w key types;
  spawn_batch_loop w0 aid items [].

(* ArchetypeSet::insert_batch for a complete ColumnBatch with component types [types] (sorted,
   deduplicated by ColumnBatchType::into_batch) and rows [rows]; ids are patched afterwards *)
Definition insert_batch (w : world) (types : list tid) (rows : list row) : outcome (world * N * N) :=
  match assoc_list types (w_index w) with
  | Some x =>
      do a <- get_arch w x;
      Done (upd_arch w x {| a_types := a_types a; a_rows := a_rows a ++ rows |}, x, arch_len a)
  | None =>
      let x := lenN (w_archs w) in
      Done ({| w_ents := w_ents w; w_archs := w_archs w ++ [{| a_types := types; a_rows := rows |}];
               w_index := (types, x) :: w_index w; w_b2a := w_b2a w; w_ins := w_ins w; w_rem := w_rem w |}, x, 0)
  end.

Fixpoint zip_rows (ids : list N) (vals : list (list (tid * val))) : list row :=
  match ids, vals with
  | id :: r, v :: s => {| r_id := id; r_vals := v |} :: zip_rows r s
  | _, _ => []
  end.

Fixpoint patch_ids (rows : list row) (idx : N) (ids : list N) : list row :=
  match ids with
  | [] => rows
  | id :: r =>
      match nthN rows idx with
      | Some x => patch_ids (updN rows idx {| r_id := id; r_vals := r_vals x |}) (N.succ idx) r
      | None => rows
      end
  end.

Definition w_spawn_column_batch (w : world) (types : list tid) (vals : list (list (tid * val)))
  : outcome (world * list entity) :=
  do w0 <- w_flush w;
  let n := lenN vals in
  (* rows arrive with the placeholder id !0 written by grow_exact *)
  do '(w1, aid, base) <- insert_batch w0 types (map (fun v => {| r_id := SENT; r_vals := v |}) vals);
  do '(e, ids) <- alloc_many (w_ents w1) n aid base;
  do a <- get_arch w1 aid;
  let w2 := upd_arch w1 aid {| a_types := a_types a; a_rows := patch_ids (a_rows a) base ids |} in
  Done (with_ents w2 e, map (resolve_unknown_gen e) ids).

(* spawn_column_batch_at: returns the components dropped with replaced entities *)
Fixpoint replace_handles (w : world) (hs : list entity) (dropped : list (tid * val))
  : world * option N * list (tid * val) :=
  match hs with
  | [] => (w, None, dropped)
  | h :: r =>
      match alloc_at (w_ents w) h with
      | Panic c => (w, Some c, dropped)
      | Done (e, None) => replace_handles (with_ents w e) r dropped
      | Done (e, Some l) =>
          if N.eqb (l_idx l) SENT then (with_ents w e, Some P_ASSERT, dropped) else
          match detach_row (with_ents w e) l with
          | Panic c => (with_ents w e, Some c, dropped)
          | Done (w', row) => replace_handles w' r (dropped ++ r_vals row)
          end
      end
  end.

Fixpoint set_handle_locs (e : entities) (hs : list entity) (aid idx : N) : entities :=
  match hs with
  | [] => e
  | h :: r => set_handle_locs (set_loc e (e_id h) {| l_arch := aid; l_idx := idx |}) r aid (N.succ idx)
  end.

(* result: the world as the call leaves it, the panic class if it panicked, and everything dropped
   (when it panics half way this includes the batch's own components, dropped with the
   ColumnBatch during unwinding) *)
Definition w_spawn_column_batch_at (w : world) (hs : list entity) (types : list tid) (vals : list (list (tid * val)))
  : world * option N * list (tid * val) :=
  match w_flush w with
  | Panic c => (w, Some c, concat vals)
  | Done w0 =>
      if negb (N.eqb (lenN hs) (lenN vals)) then (w0, Some P_ASSERT, concat vals) else
      match replace_handles w0 hs [] with
      | (w1, Some c, d) => (w1, Some c, d ++ concat vals)
      | (w1, None, d) =>
          match insert_batch w1 types (zip_rows (map e_id hs) vals) with
          | Panic c => (w1, Some c, d ++ concat vals)
          | Done (w2, aid, base) =>
              (with_ents w2 (set_handle_locs (w_ents w2) hs aid base), None, d)
          end
      end
  end.

(* ---- read accessors ---- *)
Definition w_contains (w : world) (h : entity) : bool := contains (w_ents w) h.
Definition w_len (w : world) : N := elen (w_ents w).

(* entity(h): the archetype's component types and the row index *)
Definition w_entity (w : world) (h : entity) : option (arch * N) :=
  match get (w_ents w) h with
  | None => None
  | Some l => match nthN (w_archs w) (l_arch l) with Some a => Some (a, l_idx l) | None => None end
  end.

(* get::<&T>(h): 0 = NoSuchEntity, 1 = MissingComponent, 2 = value follows *)
Definition w_get (w : world) (h : entity) (t : tid) : list N :=
  match w_entity w h with
  | None => [0]
  | Some (a, i) =>
      if mem_tid t (a_types a) then
        match nthN (a_rows a) i with
        | Some r => match lookup_first t (r_vals r) with Some v => [2; v] | None => [3] end
        | None => [3]               (* a reference past the end of the column: never reachable *)
        end
      else [1]
  end.

(* iteration: archetype order, row order; generation from meta *)
Definition w_iter (w : world) : list (entity * list (tid * val)) :=
  concat (map (fun a => map (fun r => ({| e_id := r_id r; e_gen := gen_of (w_ents w) (r_id r) |}, r_vals r)) (a_rows a))
              (w_archs w)).

(* View::<()>::contains *)
Definition w_view_unit_contains (w : world) (h : entity) : bool :=
  match nthN (meta (w_ents w)) (e_id h) with
  | None => false
  | Some m => N.eqb (m_gen m) (e_gen h) && negb (N.eqb (l_idx (m_loc m)) SENT)
              && N.ltb (l_arch (m_loc m)) (lenN (w_archs w))
  end.
