(* Engine 7: concurrent reservation (C07).  Each call of reserve_entity / reserve_entities /
   contains performs exactly one atomic operation on the cursor and otherwise reads data that is
   immutable under &self, so an interleaving at atomic-step granularity is a sequence of calls. *)
From Coq Require Import List NArith ZArith Bool.
From HecsV Require Import Base.ListN Model.EntityBits Model.Types Model.Entities Model.World.
Import ListNotations.
Open Scope N_scope.

(* program entries: (0, _) reserve_entity; (1, n) reserve_entities(n); (2, _) contains(last handle
   this thread reserved, or DANGLING) *)
Record rthread := { rt_prog : list (N * N); rt_last : entity }.

Fixpoint parse_rprogs (fuel : nat) (k : N) (l : list N) : list rthread * list N :=
  match fuel with
  | O => ([], l)
  | S f =>
      if N.eqb k 0 then ([], l) else
      match l with
      | [] => ([], [])
      | n :: rest =>
          let fix pairs (fuel : nat) (n : N) (l : list N) : list (N * N) * list N :=
            match fuel with
            | O => ([], l)
            | S f' => if N.eqb n 0 then ([], l) else
                      match l with
                      | a :: b :: r => let '(ps, tl) := pairs f' (N.pred n) r in ((a, b) :: ps, tl)
                      | _ => ([], [])
                      end
            end in
          let '(p, r1) := pairs (length rest) n rest in
          let '(ts, tl) := parse_rprogs f (N.pred k) r1 in
          ({| rt_prog := p; rt_last := DANGLING |} :: ts, tl)
      end
  end.

(* prepare a world with [nfree] ids on the free list and [nlive] live empty entities *)
Fixpoint spawn_empty (u : universe) (fuel : nat) (w : world) (acc : list entity) : world * list entity :=
  match fuel with
  | O => (w, acc)
  | S f => match w_spawn u w {| b_key := Some [0]; b_items := [] |} with
           | Done (w', h) => spawn_empty u f w' (acc ++ [h])
           | Panic _ => (w, acc)
           end
  end.

Fixpoint despawn_all (w : world) (hs : list entity) : world :=
  match hs with
  | [] => w
  | h :: r => match w_despawn w h with Done (w', _) => despawn_all w' r | Panic _ => w end
  end.

Fixpoint rrun (e : entities) (ths : list rthread) (sched : list N) (all : list entity) : list N * entities * list entity :=
  match sched with
  | [] => ([], e, all)
  | i :: r =>
      match nthN ths i with
      | None => rrun e ths r all
      | Some t =>
          match rt_prog t with
          | [] => let '(o, e', a) := rrun e ths r all in (0 :: o, e', a)
          | (op, arg) :: p =>
              match op with
              | 0 =>
                  match reserve_entity e with
                  | Done (e', h) =>
                      let '(o, ef, a) := rrun e' (updN ths i {| rt_prog := p; rt_last := h |}) r (all ++ [h]) in
                      (2 :: 1 :: to_bits h :: o, ef, a)
                  | Panic c => ([99; c], e, all)
                  end
              | 1 =>
                  match reserve_entities e arg with
                  | Done (e', hs) =>
                      let last := match lastN hs with Some h => h | None => rt_last t end in
                      let '(o, ef, a) := rrun e' (updN ths i {| rt_prog := p; rt_last := last |}) r (all ++ hs) in
                      ((1 + lenN hs) :: lenN hs :: map to_bits hs ++ o, ef, a)
                  | Panic c => ([99; c], e, all)
                  end
              | _ =>
                  let '(o, ef, a) := rrun e (updN ths i {| rt_prog := p; rt_last := rt_last t |}) r all in
                  (1 :: (if contains e (rt_last t) then 1 else 0) :: o, ef, a)
              end
          end
      end
  end.

Definition run_reserve (args : list N) : list N :=
  match args with
  | nfree :: nlive :: k :: rest =>
      let u : universe := [] in
      let '(w0, hs) := spawn_empty u (N.to_nat (nfree + nlive)) world_new [] in
      let w1 := despawn_all w0 (takeN nfree hs) in
      let '(ths, sched) := parse_rprogs (length rest) k rest in
      let '(obs, e, all) := rrun (w_ents w1) ths sched [] in
      let w2 := with_ents w1 e in
      let pre := map (fun h => if w_contains w2 h then 1 else 0) all in
      match w_flush w2 with
      | Done w3 =>
          obs ++ [lenN all] ++ pre ++ [w_len w3]
              ++ map (fun h => match get_mut (w_ents w3) h with Some _ => 1 | None => 0 end) all
              ++ map (fun h => match get_mut (w_ents w3) h with Some _ => 1 | None => 0 end) (dropN nfree hs)
      | Panic c => obs ++ [98; c]
      end
  | _ => []
  end.
