(* Dispatcher for the correspondence check: a case is a list of numbers whose head selects the
   engine; the result is the list of numbers the implementation must print for the same case. *)
From Coq Require Import List NArith.
From HecsV Require Import Base.ListN Model.EntityBits Model.Atomic Model.WorldRun Model.ReserveRun Model.Tracker.
Import ListNotations.
Open Scope N_scope.

Definition run_case (c : list N) : list N :=
  match c with
  | 1 :: args => run_world args
  | 2 :: args => run_twin args
  | 18 :: args => run_tracker args
  | 19 :: args => run_bits args
  | 6 :: args => run_borrow args
  | 7 :: args => run_reserve args
  (* real-thread reservation stress: c07_reserve predicts no duplicate, all contained, len exact *)
  | 70 :: _ => [0; 0; 0]
  (* real-thread stress run: by c06_invariant/c06_quiescent every schedule ends with no ghost
     violation and an unborrowed flag *)
  | 60 :: _ => [0; 0]
  (* worlds constructed concurrently have distinct ids, so a prepared query moved between them is
     never stale (c17_fresh assumes distinct world ids) *)
  | 17 :: _ => [0]
  (* reservations at the end of the 32-bit id space: nlive entities, one lazy reserve_entities(2^32-1-gap), then k
     reserve_entity calls: the j-th gets id nlive + (2^32-1-gap) + j with generation 1 while that fits 32 bits, and
     panics ("too many entities") afterwards (0 in the observation) *)
  | 71 :: nlive :: gap :: k :: _ =>
      map (fun j => let id := nlive + (4294967295 - gap) + j in
                    if N.ltb id 4294967296 then id + 4294967296 else 0) (seqN 0 k)
  | _ => []
  end.
