(* Containers that carry type-erased components into a world: the bump arena shared by
   EntityBuilder / EntityBuilderClone / CommandBuffer (src/entity_builder.rs, src/command_buffer.rs),
   ColumnBatchBuilder (src/batch.rs).  Each owns values for a while and must drop or hand over each
   exactly once. *)
From Coq Require Import List NArith ZArith Bool.
From HecsV Require Import Base.ListN Model.EntityBits Model.Types Model.Entities Model.World.
Import ListNotations.
Open Scope N_scope.

(* ---- lib.rs: align(x, a) = (x + a - 1) & (!a + 1) in 64-bit arithmetic ---- *)
Definition WORD64 : N := 18446744073709551616.
Definition align_up (x a : N) : N :=
  N.land ((x + a - 1) mod WORD64) ((WORD64 - a) mod WORD64).

(* usize::next_power_of_two *)
Definition next_pow2 (x : N) : N :=
  if N.leb x 1 then 1 else N.pow 2 (N.log2_up x).

(* ---- the arena: Layout {size, align}, cursor; storage is either the dangling pointer (no
   allocation yet) or an allocation with exactly this layout ---- *)
Record arena := { ar_size : N; ar_align : N; ar_cursor : N }.
Definition arena_new : arena := {| ar_size := 0; ar_align := 8; ar_cursor := 0 |}.

(* allocator events: (1, size, align) alloc; (2, size, align) dealloc *)
Definition aevent := (N * N * N)%type.

(* reserve room for a component of type [t]: offset, new arena, allocator events *)
Definition arena_add (u : universe) (a : arena) (t : tid) : N * arena * list aevent :=
  let al := ti_align (info_of u t) in
  let sz := ti_size (info_of u t) in
  let offset := align_up (ar_cursor a) al in
  let end_ := offset + sz in
  if N.ltb (ar_size a) end_ || N.ltb (ar_align a) al then
    let new_align := N.max (ar_align a) al in
    let new_size := N.max (next_pow2 end_) 64 in
    (offset, {| ar_size := new_size; ar_align := new_align; ar_cursor := end_ |},
     (1, new_size, new_align) :: (if N.eqb (ar_size a) 0 then [] else [(2, ar_size a, ar_align a)]))
  else (offset, {| ar_size := ar_size a; ar_align := ar_align a; ar_cursor := end_ |}, []).

(* ---- Common<M>: EntityBuilder / EntityBuilderClone ---- *)
Record binfo := { bi_t : tid; bi_off : N; bi_v : val }.
Record common := {
  c_arena : arena;
  c_info : list binfo;
  c_ids : list tid;
  c_indices : list (tid * N);       (* TypeId -> position in info *)
}.
Definition common_new : common := {| c_arena := arena_new; c_info := []; c_ids := []; c_indices := [] |}.

Fixpoint assoc_idx (t : tid) (m : list (tid * N)) : option N :=
  match m with [] => None | (t', i) :: r => if N.eqb t t' then Some i else assoc_idx t r end.

(* add: returns the new builder, the value dropped by replacement (if any), allocator events *)
Definition common_add (u : universe) (c : common) (t : tid) (v : val) : common * list (tid * val) * list aevent :=
  match assoc_idx t (c_indices c) with
  | Some i =>
      match nthN (c_info c) i with
      | Some old =>
          (* the entry's own type is used for the drop and for the size of the copy *)
          ({| c_arena := c_arena c; c_info := updN (c_info c) i {| bi_t := bi_t old; bi_off := bi_off old; bi_v := v |};
              c_ids := c_ids c; c_indices := c_indices c |}, [(bi_t old, bi_v old)], [])
      | None => (c, [], [])           (* index out of bounds: panic in the code *)
      end
  | None =>
      let '(off, a', ev) := arena_add u (c_arena c) t in
      ({| c_arena := a'; c_info := c_info c ++ [{| bi_t := t; bi_off := off; bi_v := v |}];
          c_ids := c_ids c; c_indices := (t, lenN (c_info c)) :: c_indices c |}, [], ev)
  end.

Definition common_has (c : common) (t : tid) : bool :=
  match assoc_idx t (c_indices c) with Some _ => true | None => false end.

(* get::<&T>: the value read at the indexed entry's offset *)
Definition common_get (c : common) (t : tid) : option (N * val) :=
  match assoc_idx t (c_indices c) with
  | Some i => match nthN (c_info c) i with Some e => Some (bi_off e, bi_v e) | None => None end
  | None => None
  end.

Definition common_types (c : common) : list tid := map bi_t (c_info c).

(* clear: drops every value, keeps the storage *)
Definition common_clear (c : common) : common * list (tid * val) :=
  ({| c_arena := {| ar_size := ar_size (c_arena c); ar_align := ar_align (c_arena c); ar_cursor := 0 |};
      c_info := []; c_ids := []; c_indices := [] |},
   map (fun e => (bi_t e, bi_v e)) (c_info c)).

Fixpoint insert_binfo (u : universe) (x : binfo) (l : list binfo) : list binfo :=
  match l with
  | [] => [x]
  | y :: t => if tle u (bi_t x) (bi_t y) then x :: l else y :: insert_binfo u x t
  end.
Definition sort_binfo (u : universe) (l : list binfo) : list binfo := fold_right (insert_binfo u) [] l.

(* EntityBuilder::build: sort info, fill ids (indices are left alone: the BuiltEntity only uses
   has(); Drop clears everything) *)
Definition builder_build (u : universe) (c : common) : common :=
  let info := sort_binfo u (c_info c) in
  {| c_arena := c_arena c; c_info := info; c_ids := c_ids c ++ map bi_t info; c_indices := c_indices c |}.

(* the bundle a BuiltEntity hands to the world: no key, ids, items in info order *)
Definition built_bundle (c : common) : bundle :=
  {| b_key := None; b_items := map (fun e => (bi_t e, bi_v e)) (c_info c) |}.

(* after put (info drained) and Drop (clear): empty builder with its storage kept *)
Definition builder_after_put (c : common) : common :=
  {| c_arena := {| ar_size := ar_size (c_arena c); ar_align := ar_align (c_arena c); ar_cursor := 0 |};
     c_info := []; c_ids := []; c_indices := [] |}.

(* From<EntityBuilderClone> for BuiltEntityClone: sort info, fill ids, re-index *)
Fixpoint reindex (l : list binfo) (i : N) (m : list (tid * N)) : list (tid * N) :=
  match l with
  | [] => m
  | e :: r => reindex r (N.succ i) ((bi_t e, i) :: filter (fun p => negb (N.eqb (fst p) (bi_t e))) m)
  end.

Definition clone_build (u : universe) (c : common) : common :=
  let info := sort_binfo u (c_info c) in
  {| c_arena := c_arena c; c_info := info; c_ids := c_ids c ++ map bi_t info; c_indices := reindex info 0 (c_indices c) |}.

(* From<BuiltEntityClone> for EntityBuilderClone *)
Definition clone_unbuild (c : common) : common :=
  {| c_arena := c_arena c; c_info := c_info c; c_ids := []; c_indices := c_indices c |}.

(* Clone for Common<DynamicClone>: every value cloned (fresh serials, in info order), same layout;
   allocates unless the layout is empty *)
Fixpoint clone_infos (l : list binfo) (next : N) : list binfo * N :=
  match l with
  | [] => ([], next)
  | e :: r => let '(l', n') := clone_infos r (N.succ next) in
              ({| bi_t := bi_t e; bi_off := bi_off e; bi_v := N.succ next |} :: l', n')
  end.

Definition common_clone (c : common) (next : N) : common * N * list aevent :=
  let '(info, next') := clone_infos (c_info c) next in
  ({| c_arena := c_arena c; c_info := info; c_ids := c_ids c; c_indices := c_indices c |}, next',
   if N.eqb (ar_size (c_arena c)) 0 then [] else [(1, ar_size (c_arena c), ar_align (c_arena c))]).

(* spawn(&built): a bundle of clones, in info order *)
Definition built_clone_bundle (c : common) (next : N) : bundle * N :=
  let '(info, next') := clone_infos (c_info c) next in
  ({| b_key := None; b_items := map (fun e => (bi_t e, bi_v e)) info |}, next').

Definition common_drop (c : common) : list (tid * val) * list aevent :=
  (map (fun e => (bi_t e, bi_v e)) (c_info c),
   if N.eqb (ar_size (c_arena c)) 0 then [] else [(2, ar_size (c_arena c), ar_align (c_arena c))]).

(* ---- ColumnBatchBuilder ---- *)
Record cbatch := {
  cb_types : list tid;                    (* sorted, deduplicated *)
  cb_target : N;
  cb_cols : list (tid * list val);        (* values pushed so far per column, in push order *)
}.

Definition cbatch_new (u : universe) (declared : list tid) (n : N) : cbatch :=
  let ts := dedup_sorted (tsort u declared) in
  {| cb_types := ts; cb_target := n; cb_cols := map (fun t => (t, [])) ts |}.

Fixpoint col_of (t : tid) (cols : list (tid * list val)) : option (list val) :=
  match cols with [] => None | (t', l) :: r => if N.eqb t t' then Some l else col_of t r end.
Fixpoint set_col (t : tid) (l : list val) (cols : list (tid * list val)) : list (tid * list val) :=
  match cols with [] => [] | (t', x) :: r => if N.eqb t t' then (t', l) :: r else (t', x) :: set_col t l r end.

(* one writer::<T>() and a sequence of pushes through it: returns the values rejected (Err(x)),
   or None when the type is not part of the batch *)
Definition cbatch_push (b : cbatch) (t : tid) (vs : list val) : option (cbatch * list val) :=
  match col_of t (cb_cols b) with
  | None => None
  | Some cur =>
      let room := cb_target b - lenN cur in
      Some ({| cb_types := cb_types b; cb_target := cb_target b;
               cb_cols := set_col t (cur ++ takeN room vs) (cb_cols b) |}, dropN room vs)
  end.

Definition cbatch_complete (b : cbatch) : bool :=
  forallb (fun t => match col_of t (cb_cols b) with Some l => N.eqb (lenN l) (cb_target b) | None => false end) (cb_types b).

Definition cbatch_values (b : cbatch) : list (tid * val) :=
  concat (map (fun p => map (fun v => (fst p, v)) (snd p)) (cb_cols b)).

(* rows of a complete batch: the i-th row holds the i-th value pushed to each column *)
Definition cbatch_rows (b : cbatch) : list (list (tid * val)) :=
  map (fun i => concat (map (fun p => match nthN (snd p) i with Some v => [(fst p, v)] | None => [] end) (cb_cols b)))
      (seqN 0 (cb_target b)).

(* ---- CommandBuffer ---- *)
Inductive cmd :=
| CSpawnOrInsert (target : option entity) (start len : N)
| CRemove (target : entity) (key : bkey) (types : list tid)
| CDespawn (target : entity).

Record crec := { cr_t : tid; cr_off : N; cr_v : val; cr_live : bool }.   (* live = still owned by the buffer *)
Record cmdbuf := { cm_cmds : list cmd; cm_arena : arena; cm_comps : list crec }.
Definition cmdbuf_new : cmdbuf := {| cm_cmds := []; cm_arena := arena_new; cm_comps := [] |}.

Fixpoint insert_crec (u : universe) (x : crec) (l : list crec) : list crec :=
  match l with
  | [] => [x]
  | y :: t => if tle u (cr_t x) (cr_t y) then x :: l else y :: insert_crec u x t
  end.

(* add_inner for every component in put order, then sort the new slice by TypeInfo *)
Fixpoint cm_add_all (u : universe) (a : arena) (items : list (tid * val)) : arena * list crec * list aevent :=
  match items with
  | [] => (a, [], [])
  | (t, v) :: r =>
      let '(off, a1, ev1) := arena_add u a t in
      let '(a2, recs, ev2) := cm_add_all u a1 r in
      (a2, {| cr_t := t; cr_off := off; cr_v := v; cr_live := true |} :: recs, ev1 ++ ev2)
  end.

Definition cm_record (u : universe) (c : cmdbuf) (target : option entity) (b : bundle) : cmdbuf * list aevent :=
  let first := lenN (cm_comps c) in
  let '(a', recs, ev) := cm_add_all u (cm_arena c) (b_items b) in
  let sorted := fold_right (insert_crec u) [] recs in
  ({| cm_cmds := cm_cmds c ++ [CSpawnOrInsert target first (lenN sorted)]; cm_arena := a'; cm_comps := cm_comps c ++ sorted |}, ev).

Definition cm_push_cmd (c : cmdbuf) (x : cmd) : cmdbuf :=
  {| cm_cmds := cm_cmds c ++ [x]; cm_arena := cm_arena c; cm_comps := cm_comps c |}.

(* clear / drop: every value still owned by the buffer is dropped *)
Definition cm_live_values (c : cmdbuf) : list (tid * val) :=
  concat (map (fun r => if cr_live r then [(cr_t r, cr_v r)] else []) (cm_comps c)).

Definition cm_clear (c : cmdbuf) : cmdbuf * list (tid * val) :=
  ({| cm_cmds := []; cm_arena := {| ar_size := ar_size (cm_arena c); ar_align := ar_align (cm_arena c); ar_cursor := 0 |};
      cm_comps := [] |}, cm_live_values c).

Fixpoint mark_consumed (l : list crec) (start len : N) : list crec :=
  match l with
  | [] => []
  | r :: t =>
      if N.eqb start 0 then
        (if N.eqb len 0 then l
         else {| cr_t := cr_t r; cr_off := cr_off r; cr_v := cr_v r; cr_live := false |} :: mark_consumed t 0 (N.pred len))
      else r :: mark_consumed t (N.pred start) len
  end.

(* run_on: apply every command in recorded order; errors from dead entities are ignored; returns
   the world, the buffer as run_on leaves it (or as it is when a command panics), the spawned
   handles, everything dropped, and the panic class if hecs panicked *)
Fixpoint cm_run (u : universe) (fuel : nat) (w : world) (c : cmdbuf) (i : N) (cmds : list cmd)
         (spawned : list entity) (dropped : list (tid * val))
  : world * cmdbuf * list entity * list (tid * val) * option N :=
  match fuel with
  | O => (w, c, spawned, dropped, None)
  | S f =>
      match cmds with
      | [] =>
          (* self.components.clear(); self.clear() *)
          (w, {| cm_cmds := []; cm_arena := {| ar_size := ar_size (cm_arena c); ar_align := ar_align (cm_arena c); ar_cursor := 0 |};
                 cm_comps := [] |}, spawned, dropped, None)
      | x :: rest =>
          (* mem::replace(&mut self.cmds[i], Cmd::Despawn(Entity::DANGLING)) *)
          let c := {| cm_cmds := updN (cm_cmds c) i (CDespawn DANGLING); cm_arena := cm_arena c; cm_comps := cm_comps c |} in
          match x with
          | CSpawnOrInsert target start len =>
              let slice := takeN len (dropN start (cm_comps c)) in
              let b := {| b_key := None; b_items := map (fun r => (cr_t r, cr_v r)) slice |} in
              let c' := {| cm_cmds := cm_cmds c; cm_arena := cm_arena c; cm_comps := mark_consumed (cm_comps c) start len |} in
              match target with
              | None =>
                  match w_spawn u w b with
                  | Done (w', h) => cm_run u f w' c' (N.succ i) rest (spawned ++ [h]) dropped
                  | Panic p => (w, c', spawned, dropped ++ b_items b, Some p)
                  end
              | Some h =>
                  match w_insert u w h b with
                  | Done (w', WOk d) => cm_run u f w' c' (N.succ i) rest spawned (dropped ++ d)
                  | Done (w', _) => cm_run u f w' c' (N.succ i) rest spawned (dropped ++ b_items b)
                  | Panic p => (w, c', spawned, dropped ++ b_items b, Some p)
                  end
              end
          | CRemove h key ts =>
              match w_remove u w h key ts with
              | Done (w', WOk taken) => cm_run u f w' c (N.succ i) rest spawned (dropped ++ taken)   (* `let _ =` drops the bundle *)
              | Done (w', _) => cm_run u f w' c (N.succ i) rest spawned dropped
              | Panic p => (w, c, spawned, dropped, Some p)
              end
          | CDespawn h =>
              match w_despawn w h with
              | Done (w', WOk d) => cm_run u f w' c (N.succ i) rest spawned (dropped ++ d)
              | Done (w', _) => cm_run u f w' c (N.succ i) rest spawned dropped
              | Panic p => (w, c, spawned, dropped, Some p)
              end
          end
      end
  end.

Definition cm_run_on (u : universe) (w : world) (c : cmdbuf) :=
  cm_run u (S (length (cm_cmds c))) w c 0 (cm_cmds c) [] [].
