(* ChangeTracker<T> (src/change_tracker.rs) at the level of what it can observe: every live entity
   either has a T (type 1) or not, and either has the hidden Previous<T> or not.  The world part is the
   World model (so handles are exact); Previous<T> is kept in a side map from handle bits to value:
   it is created only by Changes::drop, updated only by changed(), removed only by removed() and
   by despawn. *)
From Coq Require Import List NArith ZArith Bool.
From HecsV Require Import Base.ListN Model.EntityBits Model.Types Model.Entities Model.World.
Import ListNotations.
Open Scope N_scope.

Definition TT : tid := 1.       (* the tracked component type *)

Record tstate := { t_w : world; t_prev : list (N * val) }.     (* handle bits -> Previous value *)

Fixpoint prev_get (k : N) (m : list (N * val)) : option val :=
  match m with [] => None | (k', v) :: r => if N.eqb k k' then Some v else prev_get k r end.
Definition prev_del (k : N) (m : list (N * val)) : list (N * val) := filter (fun p => negb (N.eqb (fst p) k)) m.
Definition prev_set (k : N) (v : val) (m : list (N * val)) : list (N * val) := (k, v) :: prev_del k m.

(* live entities with their T, in iteration order *)
Definition t_entities (s : tstate) : list (N * option val) :=
  map (fun p => (to_bits (fst p), lookup_first TT (snd p))) (w_iter (t_w s)).

(* Without<&T, &Previous<T>> *)
Definition added_set (s : tstate) : list (N * val) :=
  concat (map (fun p => match snd p, prev_get (fst p) (t_prev s) with
                        | Some v, None => [(fst p, v)]
                        | _, _ => []
                        end) (t_entities s)).
(* (&T, &mut Previous<T>) with new != old *)
Definition changed_set (s : tstate) : list (N * val * val) :=
  concat (map (fun p => match snd p, prev_get (fst p) (t_prev s) with
                        | Some v, Some o => if N.eqb v o then [] else [(fst p, o, v)]
                        | _, _ => []
                        end) (t_entities s)).
(* Without<With<(), &Previous<T>>, &T> *)
Definition removed_set (s : tstate) : list (N * val) :=
  concat (map (fun p => match snd p, prev_get (fst p) (t_prev s) with
                        | None, Some o => [(fst p, o)]
                        | _, _ => []
                        end) (t_entities s)).

(* effects of fully draining changed() / removed() (DrainOnDrop drains whatever the caller left) *)
Definition apply_changed (s : tstate) : tstate :=
  {| t_w := t_w s; t_prev := fold_left (fun m c => prev_set (fst (fst c)) (snd c) m) (changed_set s) (t_prev s) |}.
Definition apply_removed (s : tstate) : tstate :=
  {| t_w := t_w s; t_prev := fold_left (fun m c => prev_del (fst c) m) (removed_set s) (t_prev s) |}.
Definition apply_added (s : tstate) (buf : list (N * val)) : tstate :=
  {| t_w := t_w s; t_prev := fold_left (fun m c => prev_set (fst c) (snd c) m) buf (t_prev s) |}.

(* one Changes value: the caller's reads (kind 0 added / 1 changed / 2 removed), then Drop.
   Returns, per read, what a full read yields. *)
Inductive report := RAdded (l : list (N * val)) | RChanged (l : list (N * val * val)) | RRemoved (l : list (N * val)).

Fixpoint do_reads (s : tstate) (reads : list N) (a c r : bool) (buf : list (N * val))
  : tstate * list report * bool * bool * bool * list (N * val) :=
  match reads with
  | [] => (s, [], a, c, r, buf)
  | k :: rest =>
      match k with
      | 0 => let b := added_set s in
             let '(s', reps, a', c', r', buf') := do_reads s rest true c r b in
             (s', RAdded b :: reps, a', c', r', buf')
      | 1 => let ch := changed_set s in
             let '(s', reps, a', c', r', buf') := do_reads (apply_changed s) rest a true r buf in
             (s', RChanged ch :: reps, a', c', r', buf')
      | _ => let rm := removed_set s in
             let '(s', reps, a', c', r', buf') := do_reads (apply_removed s) rest a c true buf in
             (s', RRemoved rm :: reps, a', c', r', buf')
      end
  end.

Definition track (s : tstate) (reads : list N) : tstate * list report :=
  let '(s1, reps, a, c, r, buf) := do_reads s reads false false false [] in
  (* impl Drop for Changes *)
  let buf := if a then buf else added_set s1 in
  let s2 := apply_added s1 buf in
  let s3 := if c then s2 else apply_changed s2 in
  let s4 := if r then s3 else apply_removed s3 in
  (s4, reps).

(* world mutations between track calls; despawn takes the hidden component with it *)
Definition t_despawn (s : tstate) (h : entity) : tstate :=
  match w_despawn (t_w s) h with
  | Done (w', WOk _) => {| t_w := w'; t_prev := prev_del (to_bits h) (t_prev s) |}
  | Done (w', _) => {| t_w := w'; t_prev := t_prev s |}
  | Panic _ => s
  end.

(* spawn_at: whatever entity held the id goes, and its hidden component with it (every generation of that id) *)
Definition t_spawn_at (u : universe) (s : tstate) (h : entity) (b : bundle) : option tstate :=
  match w_spawn_at u (t_w s) h b with
  | Done (w', _) => Some {| t_w := w'; t_prev := filter (fun p => negb (N.eqb (fst p mod W32) (e_id h))) (t_prev s) |}
  | Panic _ => None
  end.

(* ---- engine 18 ---- *)
Definition sort_bits {A} (key : A -> N) (l : list A) : list A :=
  fold_right (fun x acc => (fix ins (l : list A) := match l with
                                                    | [] => [x]
                                                    | y :: t => if N.leb (key x) (key y) then x :: l else y :: ins t
                                                    end) acc) [] l.

(* limits 100 + k: the consumer reads k items and then PANICS inside its loop (the panic is caught by the
   caller); the reports and the hidden state must be exactly those of a partial read of k items *)
Definition eff_limit (limit : N) : N := if N.leb 100 limit && N.ltb limit 255 then limit - 100 else limit.

Definition enc_report (rep : report) (limit0 : N) : list N :=
  let limit := eff_limit limit0 in
  match rep with
  | RAdded l => if N.ltb limit 255 then [N.min limit (lenN l)]
                else lenN l :: concat (map (fun p => [fst p; snd p]) (sort_bits fst l))
  | RChanged l => if N.ltb limit 255 then [N.min limit (lenN l)]
                  else lenN l :: concat (map (fun p => [fst (fst p); snd (fst p); snd p]) (sort_bits (fun p => fst (fst p)) l))
  | RRemoved l => if N.ltb limit 255 then [N.min limit (lenN l)]
                  else lenN l :: concat (map (fun p => [fst p; snd p]) (sort_bits fst l))
  end.

Definition tu : universe :=
  [{| ti_align := 1; ti_size := 0; ti_rank := 0 |}; {| ti_align := 4; ti_size := 4; ti_rank := 1 |};
   {| ti_align := 8; ti_size := 8; ti_rank := 2 |}].

Definition href_of (hs : list entity) (i : N) : entity := match nthN hs i with Some h => h | None => DANGLING end.

Fixpoint run_tracker_ops (fuel : nat) (s : tstate) (hs : list entity) (l : list N) : list N :=
  match fuel with
  | O => []
  | S f =>
      match l with
      | 1 :: v :: rest =>          (* spawn (T(v), filler) *)
          match w_spawn tu (t_w s) {| b_key := Some [0; 1; 2]; b_items := [(1, v); (2, 7)] |} with
          | Done (w', h) => to_bits h :: run_tracker_ops f {| t_w := w'; t_prev := t_prev s |} (hs ++ [h]) rest
          | Panic _ => [99]
          end
      | 2 :: rest =>               (* spawn (filler,) *)
          match w_spawn tu (t_w s) {| b_key := Some [0; 2]; b_items := [(2, 7)] |} with
          | Done (w', h) => to_bits h :: run_tracker_ops f {| t_w := w'; t_prev := t_prev s |} (hs ++ [h]) rest
          | Panic _ => [99]
          end
      | 3 :: i :: v :: rest =>     (* insert_one(h, T(v)) *)
          match w_insert tu (t_w s) (href_of hs i) {| b_key := Some [0; 1]; b_items := [(1, v)] |} with
          | Done (w', WOk _) => 0 :: run_tracker_ops f {| t_w := w'; t_prev := t_prev s |} hs rest
          | Done (w', _) => 1 :: run_tracker_ops f {| t_w := w'; t_prev := t_prev s |} hs rest
          | Panic _ => [99]
          end
      | 4 :: i :: rest =>          (* remove_one::<T>(h) *)
          match w_remove tu (t_w s) (href_of hs i) [0; 1] [1] with
          | Done (w', WOk _) => 0 :: run_tracker_ops f {| t_w := w'; t_prev := t_prev s |} hs rest
          | Done (w', WNoSuchEntity) => 1 :: run_tracker_ops f {| t_w := w'; t_prev := t_prev s |} hs rest
          | Done (w', WMissing) => 2 :: run_tracker_ops f {| t_w := w'; t_prev := t_prev s |} hs rest
          | Panic _ => [99]
          end
      | 5 :: i :: rest =>          (* despawn(h) *)
          let s' := t_despawn s (href_of hs i) in
          (if N.eqb (w_len (t_w s')) (w_len (t_w s)) then 1 else 0) :: run_tracker_ops f s' hs rest
      | 7 :: n :: v :: rest =>     (* one column batch of n rows (filler, T(v + 2i)): several ids taken in one go *)
          let sorted := tsort tu [1; 2] in
          let rows := map (fun i => map (fun t => (t, if N.eqb t 1 then v + 2 * i else 7)) sorted) (seqN 0 n) in
          match w_spawn_column_batch (t_w s) sorted rows with
          | Done (w', hs') => map to_bits hs' ++ run_tracker_ops f {| t_w := w'; t_prev := t_prev s |} (hs ++ hs') rest
          | Panic _ => [99]
          end
      | 8 :: i :: v :: rest =>     (* spawn_at(h, (T(v), filler)) on a handle that is not live: the id is revived, or taken
                                      from the entity of another generation that holds it (which goes, hidden component included) *)
          match nthN hs i with
          | None => 9 :: run_tracker_ops f s hs rest
          | Some h =>
              if w_contains (t_w s) h then 9 :: run_tracker_ops f s hs rest else
              match t_spawn_at tu s h {| b_key := Some [0; 1; 2]; b_items := [(1, v); (2, 7)] |} with
              | Some s' => 0 :: run_tracker_ops f s' hs rest
              | None => [99]
              end
          end
      | 6 :: n :: rest =>          (* track: n reads (kind, limit) *)
          let pairs := takeN (2 * n) rest in
          let rest' := dropN (2 * n) rest in
          let kinds := (fix ev (l : list N) := match l with k :: _ :: r => k :: ev r | _ => [] end) pairs in
          let limits := (fix od (l : list N) := match l with _ :: m :: r => m :: od r | _ => [] end) pairs in
          let '(s', reps) := track s kinds in
          concat (map (fun p => enc_report (fst p) (snd p)) (combine reps limits)) ++ run_tracker_ops f s' hs rest'
      | _ => []
      end
  end.

Definition run_tracker (args : list N) : list N :=
  run_tracker_ops (length args) {| t_w := world_new; t_prev := [] |} [] args.
