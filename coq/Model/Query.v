(* Queries (src/query.rs, query_one.rs, entity_ref.rs): the Fetch quintuple per combinator as
   separate functions (access / prepare / get / for_each_borrow / borrow), the iterators, views,
   batched iteration and prepared queries. *)
From Coq Require Import List NArith ZArith Bool.
From HecsV Require Import Base.ListN Model.EntityBits Model.Types Model.Entities Model.World.
Import ListNotations.
Open Scope N_scope.

Inductive query :=
| QRead (t : tid)                 (* &T *)
| QWrite (t : tid)                (* &mut T *)
| QOpt (q : query)                (* Option<Q> *)
| QOr (l r : query)               (* Or<L, R> *)
| QWith (q r : query)             (* With<Q, R> *)
| QWithout (q r : query)          (* Without<Q, R> *)
| QSat (q : query)                (* Satisfies<Q> *)
| QTup (qs : list query).         (* (A, B, ...) and derived Query structs *)

(* Access: None < Some Iterate(0) < Some Read(1) < Some Write(2) *)
Definition omax (a b : option N) : option N :=
  match a, b with
  | None, x => x
  | x, None => x
  | Some x, Some y => Some (N.max x y)
  end.

Fixpoint access (ts : list tid) (q : query) : option N :=
  match q with
  | QRead t => if mem_tid t ts then Some 1 else None
  | QWrite t => if mem_tid t ts then Some 2 else None
  | QOpt q => Some (match access ts q with Some a => a | None => 0 end)
  | QOr l r => omax (access ts l) (access ts r)
  | QWith q r => match access ts r with Some _ => access ts q | None => None end
  | QWithout q r => match access ts r with Some _ => None | None => access ts q end
  | QSat _ => Some 0
  | QTup qs =>
      (fix go (qs : list query) (acc : N) : option N :=
         match qs with
         | [] => Some acc
         | q :: r => match access ts q with Some a => go r (N.max acc a) | None => None end
         end) qs 0
  end.

(* Fetch::State *)
Inductive qstate :=
| SCol (t : tid)
| SOpt (o : option qstate)
| SLeft (s : qstate) | SRight (s : qstate) | SBoth (s1 s2 : qstate)
| SBool (b : bool)
| STup (ss : list qstate).

Fixpoint prepare (ts : list tid) (q : query) : option qstate :=
  match q with
  | QRead t => if mem_tid t ts then Some (SCol t) else None
  | QWrite t => if mem_tid t ts then Some (SCol t) else None
  | QOpt q => Some (SOpt (prepare ts q))
  | QOr l r =>
      match prepare ts l, prepare ts r with
      | None, None => None
      | Some a, None => Some (SLeft a)
      | None, Some b => Some (SRight b)
      | Some a, Some b => Some (SBoth a b)
      end
  | QWith q r => match access ts r with Some _ => prepare ts q | None => None end
  | QWithout q r => match access ts r with Some _ => None | None => prepare ts q end
  | QSat q => Some (SBool (match prepare ts q with Some _ => true | None => false end))
  | QTup qs =>
      option_map STup
        ((fix go (qs : list query) : option (list qstate) :=
            match qs with
            | [] => Some []
            | q :: r => match prepare ts q, go r with
                        | Some s, Some ss => Some (s :: ss)
                        | _, _ => None
                        end
            end) qs)
  end.

(* what iterating yields for one row *)
Inductive item :=
| IVal (t : tid) (v : val)
| INone | ISome (i : item)
| ILeft (i : item) | IRight (i : item) | IBoth (i j : item)
| IBool (b : bool)
| ITup (is : list item)
| IBad.                             (* a reference to storage the row does not have *)

(* execute + get: driven by the prepared state, as in the code *)
Fixpoint get_item (row : list (tid * val)) (q : query) (s : qstate) : item :=
  match q, s with
  | QRead _, SCol t | QWrite _, SCol t =>
      match lookup_first t row with Some v => IVal t v | None => IBad end
  | QOpt q, SOpt None => INone
  | QOpt q, SOpt (Some s) => ISome (get_item row q s)
  | QOr l _, SLeft a => ILeft (get_item row l a)
  | QOr _ r, SRight b => IRight (get_item row r b)
  | QOr l r, SBoth a b => IBoth (get_item row l a) (get_item row r b)
  | QWith q _, s => get_item row q s
  | QWithout q _, s => get_item row q s
  | QSat _, SBool b => IBool b
  | QTup qs, STup ss =>
      ITup ((fix go (qs : list query) (ss : list qstate) : list item :=
               match qs, ss with
               | q :: qr, s :: sr => get_item row q s :: go qr sr
               | _, _ => []
               end) qs ss)
  | _, _ => IBad
  end.

(* for_each_borrow: (type, unique) in declaration order; used by assert_borrow *)
Fixpoint borrows (q : query) : list (tid * bool) :=
  match q with
  | QRead t => [(t, false)]
  | QWrite t => [(t, true)]
  | QOpt q => borrows q
  | QOr l r => borrows l ++ borrows r
  | QWith q _ => borrows q
  | QWithout q _ => borrows q
  | QSat _ => []
  | QTup qs => (fix go (qs : list query) := match qs with [] => [] | q :: r => borrows q ++ go r end) qs
  end.

(* assert_borrow: every uniquely borrowed type occurs nowhere else in the query *)
Definition assert_borrow_ok (q : query) : bool :=
  let bs := borrows q in
  let fix outer (i : N) (l : list (tid * bool)) : bool :=
    match l with
    | [] => true
    | (a, uniq) :: r =>
        (if uniq then
           (fix inner (j : N) (m : list (tid * bool)) : bool :=
              match m with
              | [] => true
              | (b, _) :: mr => (N.eqb i j || negb (N.eqb a b)) && inner (N.succ j) mr
              end) 0 bs
         else true) && outer (N.succ i) r
    end in outer 0 bs.

(* Fetch::borrow for a prepared state: the columns dynamically borrowed, in order *)
Fixpoint borrow_cols (q : query) (s : qstate) : list (tid * bool) :=
  match q, s with
  | QRead _, SCol t => [(t, false)]
  | QWrite _, SCol t => [(t, true)]
  | QOpt q, SOpt (Some s) => borrow_cols q s
  | QOr l _, SLeft a => borrow_cols l a
  | QOr _ r, SRight b => borrow_cols r b
  | QOr l r, SBoth a b => borrow_cols l a ++ borrow_cols r b
  | QWith q _, s => borrow_cols q s
  | QWithout q _, s => borrow_cols q s
  | QTup qs, STup ss =>
      (fix go (qs : list query) (ss : list qstate) : list (tid * bool) :=
         match qs, ss with
         | q :: qr, s :: sr => borrow_cols q s ++ go qr sr
         | _, _ => []
         end) qs ss
  | _, _ => []
  end.

(* ---- denotational specification over a component set ---- *)
Fixpoint sat (ts : list tid) (q : query) : bool :=
  match q with
  | QRead t | QWrite t => mem_tid t ts
  | QOpt _ => true
  | QOr l r => sat ts l || sat ts r
  | QWith q r => sat ts q && sat ts r
  | QWithout q r => sat ts q && negb (sat ts r)
  | QSat _ => true
  | QTup qs => forallb (sat ts) qs
  end.

Fixpoint item_spec (row : list (tid * val)) (q : query) : item :=
  let ts := map fst row in
  match q with
  | QRead t | QWrite t => match lookup_first t row with Some v => IVal t v | None => IBad end
  | QOpt q => if sat ts q then ISome (item_spec row q) else INone
  | QOr l r =>
      match sat ts l, sat ts r with
      | true, true => IBoth (item_spec row l) (item_spec row r)
      | true, false => ILeft (item_spec row l)
      | false, true => IRight (item_spec row r)
      | false, false => IBad
      end
  | QWith q _ => item_spec row q
  | QWithout q _ => item_spec row q
  | QSat q => IBool (sat ts q)
  | QTup qs => ITup (map (item_spec row) qs)
  end.

(* ---- iteration ---- *)
Definition handle_of (w : world) (id : N) : entity := {| e_id := id; e_gen := gen_of (w_ents w) id |}.

(* QueryIter / QueryMut: archetypes in order, rows in order *)
Definition query_iter (w : world) (q : query) : list (entity * item) :=
  concat (map (fun a => match prepare (a_types a) q with
                        | Some s => map (fun r => (handle_of w (r_id r), get_item (r_vals r) q s)) (a_rows a)
                        | None => []
                        end) (w_archs w)).

(* ExactSizeIterator::len before iteration starts: uses access, not prepare *)
Definition query_len (w : world) (q : query) : N :=
  sumN (map (fun a => match access (a_types a) q with Some _ => lenN (a_rows a) | None => 0 end) (w_archs w)).

(* View::new + View::get / contains *)
Definition view_get (w : world) (q : query) (h : entity) : option item :=
  match nthN (meta (w_ents w)) (e_id h) with
  | None => None
  | Some m =>
      if negb (N.eqb (m_gen m) (e_gen h)) || N.eqb (l_idx (m_loc m)) SENT then None else
      match nthN (w_archs w) (l_arch (m_loc m)) with
      | None => None
      | Some a =>
          match prepare (a_types a) q, nthN (a_rows a) (l_idx (m_loc m)) with
          | Some s, Some r => Some (get_item (r_vals r) q s)
          | _, _ => None
          end
      end
  end.

(* BatchedIter: the batches, each a list of rows; [fuel] bounds the number of batches *)
Fixpoint chunk_rows {A} (fuel : nat) (bs : N) (rows : list A) : list (list A) :=
  match fuel with
  | O => []
  | S f => match rows with
           | [] => []
           | _ => takeN bs rows :: chunk_rows f bs (dropN bs rows)
           end
  end.

Definition query_batches (w : world) (q : query) (bs : N) : list (list (entity * item)) :=
  concat (map (fun a => match prepare (a_types a) q with
                        | Some s => chunk_rows (S (length (a_rows a))) bs
                                      (map (fun r => (handle_of w (r_id r), get_item (r_vals r) q s)) (a_rows a))
                        | None => []
                        end) (w_archs w)).

(* query_one / query_one_mut / EntityRef::query: NoSuchEntity | Unsatisfied | item *)
Inductive q1res := Q1NoSuch | Q1Unsat | Q1Item (i : item).
Definition query_one (w : world) (q : query) (h : entity) : q1res :=
  match w_entity w h with
  | None => Q1NoSuch
  | Some (a, idx) =>
      match prepare (a_types a) q with
      | None => Q1Unsat
      | Some s =>
          match nthN (a_rows a) idx with
          | Some r => Q1Item (get_item (r_vals r) q s)
          | None => Q1Item (get_item [] q s)     (* reserved entity: the empty archetype has no columns *)
          end
      end
  end.

(* World::satisfies / EntityRef::satisfies: access-based *)
Definition satisfies (w : world) (q : query) (h : entity) : option bool :=
  match w_entity w h with
  | None => None
  | Some (a, _) => Some (match access (a_types a) q with Some _ => true | None => false end)
  end.

(* ---- PreparedQuery ---- *)
Record prepared := { pq_memo : N * N; pq_state : list (N * qstate) }.
Definition prepared_new : prepared := {| pq_memo := (0, 0); pq_state := [] |}.

Definition world_memo (wid : N) (w : world) : N * N := (wid, lenN (w_archs w)).

Definition pq_prepare (wid : N) (w : world) (q : query) : prepared :=
  {| pq_memo := world_memo wid w;
     pq_state :=
       (fix go (i : N) (archs : list arch) : list (N * qstate) :=
          match archs with
          | [] => []
          | a :: r => match prepare (a_types a) q with
                      | Some s => (i, s) :: go (N.succ i) r
                      | None => go (N.succ i) r
                      end
          end) 0 (w_archs w) |}.

Definition pq_refresh (p : prepared) (wid : N) (w : world) (q : query) : prepared :=
  if N.eqb (fst (pq_memo p)) wid && N.eqb (snd (pq_memo p)) (lenN (w_archs w)) then p else pq_prepare wid w q.

(* PreparedQueryIter over the cached (index, state) list *)
Definition pq_iter (p : prepared) (w : world) (q : query) : list (entity * item) :=
  concat (map (fun is => match nthN (w_archs w) (fst is) with
                         | Some a => map (fun r => (handle_of w (r_id r), get_item (r_vals r) q (snd is))) (a_rows a)
                         | None => [(DANGLING, IBad)]          (* index out of bounds: panic in the code *)
                         end) (pq_state p)).

Definition pq_len (p : prepared) (w : world) : N :=
  sumN (map (fun is => match nthN (w_archs w) (fst is) with Some a => lenN (a_rows a) | None => 0 end) (pq_state p)).

(* PreparedView::get *)
Definition pq_view_get (p : prepared) (w : world) (q : query) (h : entity) : option item :=
  match nthN (meta (w_ents w)) (e_id h) with
  | None => None
  | Some m =>
      if negb (N.eqb (m_gen m) (e_gen h)) || N.eqb (l_idx (m_loc m)) SENT then None else
      match (fix find (l : list (N * qstate)) := match l with
                                                 | [] => None
                                                 | (i, s) :: r => if N.eqb i (l_arch (m_loc m)) then Some s else find r
                                                 end) (pq_state p) with
      | None => None
      | Some s =>
          match nthN (w_archs w) (l_arch (m_loc m)) with
          | Some a => match nthN (a_rows a) (l_idx (m_loc m)) with
                      | Some r => Some (get_item (r_vals r) q s)
                      | None => None
                      end
          | None => None
          end
      end
  end.
