(* AtomicBorrow (src/borrow.rs) as an interleaving model at the granularity of single atomic
   operations.  Any number of threads; each runs a program of calls. *)
From Coq Require Import List NArith ZArith Lia Bool.
From HecsV Require Import Base.ListN.
Import ListNotations.
Open Scope N_scope.
Open Scope bool_scope.

Definition WORD : N := 18446744073709551616.       (* 2^64: usize on the 64-bit targets checked *)
Definition UNIQUE_BIT : N := 9223372036854775808.  (* !(usize::MAX >> 1) = 2^63 *)
Definition COUNTER_MASK : N := 9223372036854775807. (* usize::MAX >> 1 = 2^63 - 1 *)

(* Rel releases the most recently granted borrow this thread still holds (no-op if none) *)
Inductive call := AcqR | AcqW | Rel.
Inductive grant := GR | GW.
(* Rollback: borrow() has done its fetch_add, saw the unique bit, and still owes the fetch_sub *)
Inductive phase := Idle | Rollback.

Record thread := { prog : list call; ph : phase; held : list grant; log : list N }.
Record st := { cell : N; threads : list thread; panicked : bool }.

Definition wadd1 (c : N) : N := (c + 1) mod WORD.          (* fetch_add(1) wraps *)
Definition wsub1 (c : N) : N := (c + (WORD - 1)) mod WORD. (* fetch_sub(1) wraps *)

(* one atomic operation (or one no-op turn) of thread [t] against cell value [c]:
   new cell, new thread, panic? *)
Definition step_thread (c : N) (t : thread) : N * thread * bool :=
  match ph t with
  | Rollback =>
      (* self.0.fetch_sub(1, Release); false *)
      (wsub1 c, {| prog := prog t; ph := Idle; held := held t; log := 0 :: log t |}, false)
  | Idle =>
      match prog t with
      | [] => (c, t, false)
      | AcqR :: p =>
          (* let prev = fetch_add(1); if prev & MASK == MASK panic; if prev & UNIQUE != 0 roll back *)
          let c' := wadd1 c in
          if N.eqb (N.land c COUNTER_MASK) COUNTER_MASK then
            (c', {| prog := p; ph := Idle; held := held t; log := log t |}, true)
          else if negb (N.eqb (N.land c UNIQUE_BIT) 0) then
            (c', {| prog := p; ph := Rollback; held := held t; log := log t |}, false)
          else
            (c', {| prog := p; ph := Idle; held := GR :: held t; log := 1 :: log t |}, false)
      | AcqW :: p =>
          (* compare_exchange(0, UNIQUE_BIT).is_ok() *)
          if N.eqb c 0 then
            (UNIQUE_BIT, {| prog := p; ph := Idle; held := GW :: held t; log := 1 :: log t |}, false)
          else
            (c, {| prog := p; ph := Idle; held := held t; log := 0 :: log t |}, false)
      | Rel :: p =>
          match held t with
          | [] => (c, {| prog := p; ph := Idle; held := []; log := log t |}, false)
          | GR :: h =>
              (* let value = fetch_sub(1); debug_assert!(value != 0); debug_assert!(value & UNIQUE == 0) *)
              (wsub1 c, {| prog := p; ph := Idle; held := h; log := log t |},
               N.eqb c 0 || negb (N.eqb (N.land c UNIQUE_BIT) 0))
          | GW :: h =>
              (* let value = fetch_and(!UNIQUE_BIT); debug_assert_ne!(value & UNIQUE, 0) *)
              (N.land c COUNTER_MASK, {| prog := p; ph := Idle; held := h; log := log t |},
               N.eqb (N.land c UNIQUE_BIT) 0)
          end
      end
  end.

Definition step (s : st) (i : N) : st :=
  if panicked s then s else
  match nthN (threads s) i with
  | None => s
  | Some t =>
      let '(c', t', p) := step_thread (cell s) t in
      {| cell := c'; threads := updN (threads s) i t'; panicked := p |}
  end.

Definition run (sched : list N) (s : st) : st := fold_left step sched s.

Definition init_thread (p : list call) : thread := {| prog := p; ph := Idle; held := []; log := [] |}.
Definition init (progs : list (list call)) : st :=
  {| cell := 0; threads := map init_thread progs; panicked := false |}.

(* ---- executable engine for the correspondence check ---- *)
Definition call_of_N (n : N) : call := match n with 0 => AcqR | 1 => AcqW | _ => Rel end.

(* parse  k  len_1 c.. len_2 c.. ... *)
Fixpoint parse_progs (fuel : nat) (k : N) (l : list N) : list (list call) * list N :=
  match fuel with
  | O => ([], l)
  | S f =>
      if N.eqb k 0 then ([], l) else
      match l with
      | [] => ([], [])
      | n :: rest =>
          let p := map call_of_N (takeN n rest) in
          let '(ps, tl) := parse_progs f (N.pred k) (dropN n rest) in
          (p :: ps, tl)
      end
  end.

(* trace of cell values after every scheduled step *)
Fixpoint run_trace (sched : list N) (s : st) : list N * st :=
  match sched with
  | [] => ([], s)
  | i :: r => let s' := step s i in let '(tr, sf) := run_trace r s' in (cell s' :: tr, sf)
  end.

(* after the schedule, every thread releases what it still holds, thread by thread *)
Definition drain_thread (c : N) (t : thread) : N :=
  fold_left (fun c g => match g with GR => wsub1 c | GW => N.land c COUNTER_MASK end) (held t) c.

Definition run_borrow (args : list N) : list N :=
  match args with
  | k :: rest =>
      let '(progs, sched) := parse_progs (length rest) k rest in
      let '(tr, sf) := run_trace sched (init progs) in
      let final := fold_left drain_thread (threads sf) (cell sf) in
      tr ++ [if panicked sf then 1 else 0]
         ++ concat (map (fun t => lenN (log t) :: rev (log t)) (threads sf))
         ++ [final]
  | [] => []
  end.
