(* C15: Deserialising malformed data fails cleanly.
   Model: Model/Serde.v.  Statements: Proofs/SerdeSpec.v, Proofs/WorldSpec3.v.
   For EVERY token tree - not only mutations of valid serialisations - both formats, both readers: the
   decoder returns an error or a world satisfying the C01/C02 invariant; it never panics.  (Leaks and
   double drops of already-decoded components are a run-time matter: drop ledger of the harness.) *)
From Coq Require Import List NArith.
From HecsV Require Import Proofs.WorldSpec3 Proofs.SerdeSpec Proofs.SerdeTheorems Proofs.WorldProofs5.

Theorem c15_total_row : c15_total_row_stmt.             Proof. exact c15_total_row_proof. Qed.
Theorem c15_total_col : c15_total_col_stmt.             Proof. exact c15_total_col_proof. Qed.
(* the operations the decoders rest on: spawn_at accepts any handle, spawn_column_batch_at any
   duplicate-free handle list, in any world satisfying the invariant *)
Theorem c15_spawn_at_total : spawn_at_never_panics_stmt.       Proof. exact spawn_at_never_panics_proof. Qed.
Theorem c15_batch_at_refines : column_batch_at_refines_stmt.   Proof. exact column_batch_at_refines_proof. Qed.
Theorem c15_batch_at_total : column_batch_at_total_stmt.       Proof. exact column_batch_at_total_proof. Qed.

Print Assumptions c15_total_row. Print Assumptions c15_total_col. Print Assumptions c15_spawn_at_total.
Print Assumptions c15_batch_at_refines. Print Assumptions c15_batch_at_total.
