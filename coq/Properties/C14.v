(* C14: Serialising then deserialising a world reproduces it.
   Model: Model/Serde.v (row and column formats over a token tree; self-describing and length-driven
   readers).  Statements: Proofs/SerdeSpec.v. *)
From Coq Require Import List NArith.
From HecsV Require Import Model.EntityBits Model.Types Model.Entities Model.World Model.Query Model.Serde
  Proofs.WorldSpec Proofs.SerdeSpec Proofs.SerdeProofs Proofs.SerdeTheorems.
Import ListNotations.
Open Scope N_scope.

(* the element counts announced to the serializer equal the numbers of elements written (both formats) *)
Theorem c14_lengths : c14_lengths_stmt.                 Proof. exact c14_lengths_proof. Qed.
(* serialize_satisfying emits exactly the entities matching the query, with their handles *)
Theorem c14_satisfying : c14_satisfying_stmt.           Proof. exact c14_satisfying_proof. Qed.
(* round trips: for every world satisfying the invariant (every reachable world, C01), every query, both
   readers: decoding succeeds and every handle denotes in the copy what it denotes in the original,
   restricted to the handled component types (same id AND generation: abs is keyed by the full handle) *)
Theorem c14_roundtrip_row : c14_roundtrip_row_stmt.     Proof. exact c14_roundtrip_row_proof. Qed.
Theorem c14_roundtrip_col : c14_roundtrip_col_stmt.     Proof. exact c14_roundtrip_col_proof. Qed.
(* the u32 condition on the context's component ids is needed: without it the statements are false *)
Theorem c14_roundtrip_row_anyid_refuted : ~ c14_roundtrip_row_anyid_stmt. Proof. exact c14_roundtrip_row_stmt_false. Qed.
Theorem c14_roundtrip_col_anyid_refuted : ~ c14_roundtrip_col_anyid_stmt. Proof. exact c14_roundtrip_col_stmt_false. Qed.

(* non-vacuity (a test, by computation): a world with a hole in the id space, a bumped generation and an
   unhandled extra component round-trips through both formats and both readers *)
Example c14_nonvacuous :
  let u : universe := [{| ti_align := 4; ti_size := 4; ti_rank := 0 |}; {| ti_align := 8; ti_size := 8; ti_rank := 1 |};
                       {| ti_align := 1; ti_size := 1; ti_rank := 2 |}] in
  let b0 := {| b_key := Some [0; 0]; b_items := [(0, 5)] |} in
  let b1 := {| b_key := Some [0; 1]; b_items := [(1, 6)] |} in
  let b2 := {| b_key := Some [0; 2]; b_items := [(2, 1)] |} in
  let e := fun i g => {| e_id := i; e_gen := g |} in
  let ops := [WSpawn b0; WSpawn b0; WSpawn b1; WInsert (e 1 1) b2; WDespawn (e 0 1); WSpawn b1; WDespawn (e 2 1)] in
  let H := [0; 1] in
  match rev (wrun u world_new ops) with
  | w :: _ =>
      let hs := [e 0 1; e 0 2; e 1 1; e 2 1; e 2 2; e 3 1] in
      let chk := fun reader =>
        match row_de u H reader (row_ser H w (QTup [])), col_de u H reader (col_ser H w (QTup [])) with
        | DOk (w1, _), DOk w2 => map (abs w1) hs = map (copy_spec H w (QTup [])) hs /\
                                 map (abs w2) hs = map (copy_spec H w (QTup [])) hs
        | _, _ => False
        end in
      chk 0 /\ chk 1 /\
      abs w (e 1 1) = Some [(0, 5); (2, 1)] /\ copy_spec H w (QTup []) (e 1 1) = Some [(0, 5)] /\ abs w (e 0 1) = None
  | [] => False
  end.
Proof. vm_compute. repeat split; reflexivity. Qed.

Print Assumptions c14_lengths. Print Assumptions c14_satisfying. Print Assumptions c14_roundtrip_row.
Print Assumptions c14_roundtrip_col. Print Assumptions c14_roundtrip_row_anyid_refuted.
Print Assumptions c14_roundtrip_col_anyid_refuted.
