(* C12: Column batches spawn exactly the rows that were written, or fail cleanly.
   Model: Model/Containers.v (cbatch), Model/World.v (w_spawn_column_batch).  Statements: Proofs/ContSpec.v,
   Proofs/WorldSpec.v (column_batch_refines), Proofs/WorldSpec2.v (conservation). *)
From Coq Require Import List NArith.
From HecsV Require Import Proofs.WorldSpec Proofs.WorldSpec2 Proofs.ContSpec Proofs.ContProofs1
  Proofs.WorldProofs2 Proofs.ConservationProofs.

(* build succeeds iff every declared column received the declared number of values, for every push
   schedule over any number of successive writers; conservation of pushed values *)
Theorem c12_build_iff : c12_build_iff_stmt.         Proof. exact c12_build_iff_proof. Qed.
(* the i-th row holds the i-th value pushed to each column *)
Theorem c12_rows : c12_rows_stmt.                   Proof. exact c12_rows_proof. Qed.
Theorem c12_rows_noinj_refuted : ~ c12_rows_noinj_stmt. Proof. exact c12_rows_counterexample. Qed.
Theorem c12_types : c12_types_stmt.                 Proof. exact c12_types_proof. Qed.
(* spawning a complete batch: that many new handles, the i-th denoting the i-th row; nothing else
   changes; the world invariant is kept (so the world keeps working afterwards) *)
Theorem c12_spawn : column_batch_refines_stmt.      Proof. exact column_batch_refines_proof. Qed.
Theorem c12_spawn_conserves : c03_column_batch_stmt. Proof. exact c03_column_batch_proof. Qed.

Print Assumptions c12_build_iff. Print Assumptions c12_rows. Print Assumptions c12_rows_noinj_refuted.
Print Assumptions c12_types. Print Assumptions c12_spawn. Print Assumptions c12_spawn_conserves.
