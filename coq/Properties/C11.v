(* C11: CommandBuffer replay equals direct application, in recorded order.
   Model: Model/Containers.v (cmdbuf, cm_record, cm_run).  Statements: Proofs/ContSpec.v. *)
From Coq Require Import List NArith.
From HecsV Require Import Proofs.ContSpec Proofs.ContProofs2 Proofs.ContTheorems.

(* the component ranges of the recorded commands tile the component list; each range is its bundle,
   sorted by TypeInfo (the invariant behind the "failed insert concatenates components" regression) *)
Theorem c11_ranges : c11_ranges_stmt.               Proof. exact c11_ranges_proof. Qed.
(* replay = the recorded operations applied directly, in order, errors ignored: same spawned
   handles, same denotation of every handle, same dropped values; the buffer is empty afterwards *)
Theorem c11_replay : c11_replay_stmt.               Proof. exact c11_replay_proof. Qed.
Theorem c11_clear : c11_clear_stmt.                 Proof. exact c11_clear_proof. Qed.
Theorem c11_conservation : c11_conservation_stmt.   Proof. exact c11_conservation_proof. Qed.

Print Assumptions c11_ranges. Print Assumptions c11_replay. Print Assumptions c11_clear. Print Assumptions c11_conservation.
