(* C10: Outcome depends on the component set, not on how or in which order supplied.
   Statements: Proofs/MergeSpec.v (sorting / two-pointer merge), Proofs/WorldSpec2.v (names c10_...),
   and the memo-table clauses of the invariant WInv (Proofs/WorldSpec.v: wi_b2a, wi_ins, wi_rem say that
   every cached entry equals what would be computed afresh; preserved for every reachable state). *)
From Coq Require Import List NArith.
From HecsV Require Import Model.World Proofs.MergeSpec Proofs.MergeProofs Proofs.WorldSpec Proofs.WorldSpec2
  Proofs.CorollaryProofs Proofs.WorldTheorems.
Import ListNotations.

(* the sorted type list (the archetype key) depends only on the SET of types *)
Theorem c10_sort_order_independent : tsort_order_independent_stmt. Proof. exact tsort_order_independent_stmt_proof. Qed.
Theorem c10_sort_sorted : tsort_sorted_stmt.                       Proof. exact tsort_sorted_stmt_proof. Qed.
(* the two-pointer loop of get_insert_target computes intersection / differences / sorted union *)
Theorem c10_merge : merge_spec_stmt.                               Proof. exact merge_spec_stmt_proof. Qed.
Theorem c10_insert_target_types : insert_target_types_stmt.        Proof. exact insert_target_types_stmt_proof. Qed.
(* permuted bundles (any representation / key): same handle, every handle denotes the same list *)
Theorem c10_spawn_order : c10_spawn_order_stmt.                    Proof. exact c10_spawn_order_proof. Qed.
Theorem c10_insert_order : c10_insert_order_stmt.                  Proof. exact c10_insert_order_proof. Qed.
(* history independence: worlds with different archetypes / memo tables react identically *)
Theorem c10_insert_history : c10_insert_history_stmt.              Proof. exact c10_insert_history_proof. Qed.
Theorem c10_remove_history : c10_remove_history_stmt.              Proof. exact c10_remove_history_proof. Qed.
Theorem c10_exchange_history : c10_exchange_history_stmt.          Proof. exact c10_exchange_history_proof. Qed.
(* the memo tables are correct in every reachable state (part of WInv) *)
Theorem c10_memo_correct_everywhere : reachable_inv_stmt.          Proof. exact reachable_inv_proof. Qed.

Print Assumptions c10_sort_order_independent. Print Assumptions c10_sort_sorted. Print Assumptions c10_merge.
Print Assumptions c10_insert_target_types. Print Assumptions c10_spawn_order. Print Assumptions c10_insert_order.
Print Assumptions c10_insert_history. Print Assumptions c10_remove_history. Print Assumptions c10_exchange_history.
Print Assumptions c10_memo_correct_everywhere.
