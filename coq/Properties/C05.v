(* C05: Dynamic borrow checking enforces aliasing-xor-mutation, exactly.
   Model: Model/Guards.v (sequential cells per (archetype, type); start_borrow / release_borrow as in
   src/query.rs, including "stop at the first failure without rolling back").  Statements:
   Proofs/GuardSpec.v; the static aliasing check is c08_static (Proofs/QuerySpec.v). *)
From Coq Require Import List NArith.
From HecsV Require Import Model.Query Model.Guards Proofs.GuardSpec Proofs.GuardProofs Proofs.QuerySpec Proofs.QueryProofs.
Import ListNotations.

(* every grant keeps "a writer excludes every other borrow"; unique only from a free cell *)
Theorem c05_borrow_sound : c05_borrow_sound_stmt.            Proof. exact c05_borrow_sound_proof. Qed.
Theorem c05_borrow_refuses : c05_borrow_refuses_stmt.        Proof. exact c05_borrow_refuses_proof. Qed.
(* a query is granted iff every column it touches is compatible with what is held *)
Theorem c05_exact : c05_exact_stmt.                          Proof. exact c05_exact_proof. Qed.
(* two queries conflict only through a common column of a non-empty archetype satisfying both, with
   at least one unique access - and then they do conflict *)
Theorem c05_conflict_iff : c05_conflict_iff_stmt.            Proof. exact c05_conflict_iff_proof. Qed.
Theorem c05_touched_spec : c05_touched_spec_stmt.            Proof. exact c05_touched_spec_proof. Qed.
(* dropping a guard after a granted acquisition restores every cell *)
Theorem c05_release_query : c05_release_query_stmt.          Proof. exact c05_release_query_proof. Qed.
Theorem c05_release_prepared : c05_release_prepared_stmt.    Proof. exact c05_release_prepared_proof. Qed.
Theorem c05_release_one : c05_release_one_stmt.              Proof. exact c05_release_one_proof. Qed.
(* a query that aliases a unique borrow within itself is rejected statically, and only such *)
Theorem c05_static : c08_static_stmt.                        Proof. exact c08_static_proof. Qed.
(* KNOWN FINDING F9: the unconditional "after every guard is dropped all cells are free" is FALSE for
   histories with a failed acquisition: the borrows taken before the conflict are kept *)
Theorem c05_failed_acquisition_leaks : c05_failed_acquisition_leaks_stmt.
Proof. exact c05_failed_acquisition_leaks_proof. Qed.

Print Assumptions c05_borrow_sound. Print Assumptions c05_borrow_refuses. Print Assumptions c05_exact.
Print Assumptions c05_conflict_iff. Print Assumptions c05_touched_spec. Print Assumptions c05_release_query.
Print Assumptions c05_release_prepared. Print Assumptions c05_release_one. Print Assumptions c05_static.
Print Assumptions c05_failed_acquisition_leaks.
