(* C02: Entity handles: unique while live, dead forever once despawned.
   Statements: Proofs/EntitiesSpec.v (histories of the id allocator, which the correspondence check
   compares with the real allocator's meta/pending/cursor after every step). *)
From Coq Require Import List NArith.
From HecsV Require Import Model.EntityBits Model.Entities Proofs.EntitiesSpec Proofs.EntitiesProofs.
Import ListNotations.
Open Scope N_scope.

Theorem c02_unique_ids : EntitiesSpec.c02_unique_ids.
Proof. exact c02_unique_ids_proof. Qed.
Theorem c02_len : EntitiesSpec.c02_len.
Proof. exact c02_len_proof. Qed.
Theorem c02_fresh : EntitiesSpec.c02_fresh.
Proof. exact c02_fresh_proof. Qed.
Theorem c02_dead_forever : EntitiesSpec.c02_dead_forever.
Proof. exact c02_dead_forever_proof. Qed.

(* non-vacuity: a history with free-list reuse, a reservation drawn from the free list and a batch *)
Example c02_nonvacuous :
  let l := {| l_arch := 0; l_idx := 0 |} in
  let ops := [OSpawn l; OSpawn l; ODespawn {| e_id := 0; e_gen := 1 |}; OReserve; OFlush (fun _ => 0);
              OBatch 2 1 0; ODespawn {| e_id := 1; e_gen := 1 |}; OSpawn l] in
  let '(e, tr) := erun ents_empty ops in
  length tr = 8%nat /\ returned tr = [{| e_id := 0; e_gen := 1 |}; {| e_id := 1; e_gen := 1 |}; {| e_id := 0; e_gen := 2 |};
                                      {| e_id := 2; e_gen := 1 |}; {| e_id := 3; e_gen := 1 |}; {| e_id := 1; e_gen := 2 |}]
  /\ elen e = 4.
Proof. vm_compute. repeat split; reflexivity. Qed.

Print Assumptions c02_unique_ids.
Print Assumptions c02_len.
Print Assumptions c02_fresh.
Print Assumptions c02_dead_forever.
