(* C17: Prepared queries and archetype generations never go stale.
   Statements: Proofs/QuerySpec.v.  Model: Model/Query.v (prepared, pq_refresh, pq_iter, ...). *)
From Coq Require Import List NArith.
From HecsV Require Import Base.ListN Model.Types Model.World Model.Query Proofs.WorldSpec Proofs.QuerySpec Proofs.QueryProofs.
Import ListNotations.
Open Scope N_scope.

(* a cached state equal to what prepare would compute now answers exactly like a fresh query,
   through iteration, len and the prepared view *)
Theorem c17_valid_iter : c17_valid_iter_stmt.
Proof. exact c17_valid_iter_proof. Qed.
(* every world operation only appends archetypes and never changes an archetype's type list *)
Theorem c17_grows : c17_grows_stmt.
Proof. exact c17_grows_proof. Qed.
(* archetypes_generation: equal generation along a history => equal archetype sets *)
Theorem c17_generation : c17_generation_stmt.
Proof. exact c17_generation_proof. Qed.
(* any history alternating uses of ONE prepared query with arbitrary mutations of ANY number of
   worlds (distinct non-zero ids; equal or unequal archetype counts): every use answers like a
   freshly constructed query *)
Theorem c17_fresh : c17_fresh_stmt.
Proof. exact c17_fresh_proof. Qed.

Example c17_nonvacuous :
  let u : universe := [{| ti_align := 4; ti_size := 4; ti_rank := 0 |}; {| ti_align := 8; ti_size := 8; ti_rank := 1 |}] in
  let b := {| b_key := Some [0; 0]; b_items := [(0, 5)] |} in
  let evs := [PUse 0; PMut 0 (WSpawn b); PUse 0; PUse 1; PMut 1 (WSpawn b); PUse 1; PUse 0] in
  map (fun x => lenN (fst x)) (prun u (QRead 0) [1; 2] [world_new; world_new] prepared_new evs) = [0; 1; 0; 1; 1].
Proof. vm_compute. reflexivity. Qed.

Print Assumptions c17_valid_iter.
Print Assumptions c17_grows.
Print Assumptions c17_generation.
Print Assumptions c17_fresh.
