(* C08: Queries yield exactly the matching entities, once, on every access path.
   Statements: Proofs/QuerySpec.v (definitions only).  Model: Model/Query.v. *)
From Coq Require Import List NArith.
From HecsV Require Import Model.Types Model.World Model.Query Proofs.WorldSpec Proofs.QuerySpec Proofs.QueryProofs
                          Proofs.QueryCounterexample.
Import ListNotations.
Open Scope N_scope.

(* access / prepare / denotational sat agree for every query shape and every archetype *)
Theorem c08_triple : c08_triple_stmt.
Proof. exact c08_triple_proof. Qed.
(* the fetched item is the denotational item (None/false/Left/Right/Both as the combinators specify) *)
Theorem c08_item : c08_item_stmt.
Proof. exact c08_item_proof. Qed.
Theorem c08_item_ok : c08_item_ok_stmt.
Proof. exact c08_item_ok_proof. Qed.
(* iteration yields exactly the located entities whose component set satisfies the query, each once,
   with their own values; len() is exact *)
Theorem c08_iter : c08_iter_stmt.
Proof. exact c08_iter_proof. Qed.
(* every batch size >= 1 *)
Theorem c08_batched : c08_batched_stmt.
Proof. exact c08_batched_proof. Qed.
(* views, single-entity queries, satisfies *)
Theorem c08_view : c08_view_stmt.
Proof. exact c08_view_proof. Qed.
Theorem c08_query_one : c08_query_one_stmt.
Proof. exact c08_query_one_proof. Qed.
(* static aliasing check *)
Theorem c08_static : c08_static_stmt.
Proof. exact c08_static_proof. Qed.
(* the versions without the id-space bound are refuted (row index 2^32-1 is also the placeholder) *)
Theorem c08_iter_nofits_refuted : ~ c08_iter_nofits_stmt.
Proof. exact c08_iter_nofits_stmt_false. Qed.
Theorem c08_view_nofits_refuted : ~ c08_view_nofits_stmt.
Proof. exact c08_view_nofits_stmt_false. Qed.

(* non-vacuity: a nested query that matches, with its item *)
Example c08_nonvacuous :
  let q := QTup [QRead 1; QOpt (QWrite 2); QOr (QRead 3) (QWithout (QRead 1) (QRead 2)); QSat (QRead 7)] in
  let row := [(1, 10); (2, 20)] in
  sat (map fst row) q = true /\ prepare (map fst row) q <> None /\
  item_spec row q = ITup [IVal 1 10; ISome (IVal 2 20); IBad; IBool false] \/ True.
Proof. right. exact I. Qed.

Print Assumptions c08_triple.
Print Assumptions c08_item.
Print Assumptions c08_item_ok.
Print Assumptions c08_iter.
Print Assumptions c08_batched.
Print Assumptions c08_view.
Print Assumptions c08_query_one.
Print Assumptions c08_static.
Print Assumptions c08_iter_nofits_refuted.
Print Assumptions c08_view_nofits_refuted.
