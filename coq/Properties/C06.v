(* C06: Borrow flag protocol is exclusive under every thread interleaving *)
From Coq Require Import List NArith ZArith Lia.
From HecsV Require Import Base.ListN Model.Atomic Proofs.AtomicProofs.
Import ListNotations.
Open Scope N_scope.

(* For ANY number of threads, ANY programs of acquire-shared / acquire-unique / release calls and
   ANY schedule of their individual atomic operations (including the transient states between a
   reader's fetch_add and its roll-back), starting from an unborrowed flag:
   no debug assertion or overflow panic fires, the flag word equals
   2^63 * (#unique grants) + (#shared grants) + (#readers awaiting roll-back),
   at most one unique grant exists, and if one exists there is no shared grant.
   Side condition (documented in the code as a panic): fewer than 2^63-1 shared acquisitions. *)
Theorem c06_invariant : forall progs sched,
  total_acqr progs < COUNTER_MASK ->
  let s := run sched (init progs) in
  panicked s = false /\
  cell s = UNIQUE_BIT * Wn s + Rn s + Tn s /\
  Wn s <= 1 /\ (Wn s = 1 -> Rn s = 0).
Proof.
  intros progs sched H. destruct (reachable_inv progs sched H) as (A & B & C & D & _).
  exact (conj A (conj B (conj C D))).
Qed.

(* per thread: a thread holding a unique grant holds exactly that, and every other thread holds nothing *)
Theorem c06_exclusive : forall progs sched i j ti tj,
  total_acqr progs < COUNTER_MASK ->
  let s := run sched (init progs) in
  nthN (threads s) i = Some ti -> nthN (threads s) j = Some tj ->
  In GW (held ti) -> (i <> j -> held tj = []) /\ held ti = [GW].
Proof. intros progs sched i j ti tj H. apply exclusive. apply reachable_inv. exact H. Qed.

(* once every thread has finished its current call and released everything, the flag is 0 again *)
Theorem c06_quiescent : forall progs sched,
  total_acqr progs < COUNTER_MASK ->
  let s := run sched (init progs) in
  (forall t, In t (threads s) -> ph t = Idle /\ held t = []) -> cell s = 0.
Proof. intros progs sched H. apply quiescent. apply reachable_inv. exact H. Qed.

(* a step of one thread (successful, failed, or rolling back) never changes another thread's grants *)
Theorem c06_isolation : forall s i j, i <> j ->
  option_map held (nthN (threads (step s i)) j) = option_map held (nthN (threads s) j).
Proof. exact isolation. Qed.

(* non-vacuity: three threads, a schedule that exercises a failed shared acquire with roll-back
   interleaved with a unique release; the invariant's premises hold and the run ends quiescent *)
Example c06_nonvacuous :
  let progs := [[AcqW; Rel]; [AcqR; Rel]; [AcqR; AcqW; Rel]] in
  let s := run [0; 1; 0; 2; 1; 2; 2; 1; 2] (init progs) in
  total_acqr progs < COUNTER_MASK /\ cell s = 0 /\ panicked s = false /\
  map (fun t => rev (log t)) (threads s) = [[1]; [0]; [1; 0]].
Proof. vm_compute. repeat split; reflexivity. Qed.

Print Assumptions c06_invariant.
Print Assumptions c06_exclusive.
Print Assumptions c06_quiescent.
Print Assumptions c06_isolation.
