(* C03: Every component value is dropped or handed back exactly once.
   Conservation of the multiset of values for every world operation (Proofs/WorldSpec2.v), every
   builder / batch operation and every command-buffer replay, including panicking ones
   (Proofs/ContSpec.v).  The drop ledger of the harness compares the model's per-operation drop lists
   with the real destructors. *)
From Coq Require Import List NArith.
From HecsV Require Import Proofs.WorldSpec Proofs.WorldSpec2 Proofs.ConservationProofs Proofs.ContSpec
  Proofs.ContProofs1 Proofs.ContProofs2 Proofs.ContTheorems.

Theorem c03_flush : c03_flush_stmt.                 Proof. exact c03_flush_proof. Qed.
Theorem c03_spawn : c03_spawn_stmt.                 Proof. exact c03_spawn_proof. Qed.
Theorem c03_spawn_at : c03_spawn_at_stmt.           Proof. exact c03_spawn_at_proof. Qed.
Theorem c03_insert : c03_insert_stmt.               Proof. exact c03_insert_proof. Qed.
Theorem c03_remove : c03_remove_stmt.               Proof. exact c03_remove_proof. Qed.
Theorem c03_exchange : c03_exchange_stmt.           Proof. exact c03_exchange_proof. Qed.
Theorem c03_despawn : c03_despawn_stmt.             Proof. exact c03_despawn_proof. Qed.
Theorem c03_take_drop : c03_take_drop_stmt.         Proof. exact c03_take_drop_proof. Qed.
Theorem c03_column_batch : c03_column_batch_stmt.   Proof. exact c03_column_batch_proof. Qed.
Theorem c03_clear : c03_clear_stmt.                 Proof. exact c03_clear_proof. Qed.
(* a bundle naming a type twice is rejected before anything is moved *)
Theorem c03_dup_rejected : spawn_dup_panics_stmt.   Proof. exact WorldProofs2.spawn_dup_panics_proof. Qed.
(* builders: a replaced value is dropped once; clear drops everything once; build hands over exactly
   the contents *)
Theorem c03_builder_add : c13_add_stmt.             Proof. exact c13_add_proof. Qed.
Theorem c03_builder_clear_build : c13_clear_build_stmt. Proof. exact c13_clear_build_proof. Qed.
(* column batches: every pushed value is in the batch or handed back, once *)
Theorem c03_batch : c12_build_iff_stmt.             Proof. exact c12_build_iff_proof. Qed.
(* command buffers: cleared/dropped buffers drop each recorded value once; a replay - panicking or
   not - conserves every value *)
Theorem c03_cmd_clear : c11_clear_stmt.             Proof. exact c11_clear_proof. Qed.
Theorem c03_cmd_replay : c11_conservation_stmt.     Proof. exact c11_conservation_proof. Qed.

Print Assumptions c03_flush. Print Assumptions c03_spawn. Print Assumptions c03_spawn_at. Print Assumptions c03_insert.
Print Assumptions c03_remove. Print Assumptions c03_exchange. Print Assumptions c03_despawn. Print Assumptions c03_take_drop.
Print Assumptions c03_column_batch. Print Assumptions c03_clear. Print Assumptions c03_dup_rejected.
Print Assumptions c03_builder_add. Print Assumptions c03_builder_clear_build. Print Assumptions c03_batch.
Print Assumptions c03_cmd_clear. Print Assumptions c03_cmd_replay.
