(* C04: Type-erased column storage is memory-safe for every component layout.
   What a theorem can carry here is the ARITHMETIC the unsafe code relies on, for every layout and count:
   capacities never fall below the number of rows, bases are aligned, slots are aligned / in bounds /
   disjoint, the bump arena places every component aligned, in bounds and non-overlapping, and every
   location the world holds names a row that exists (so every index handed to the pointer arithmetic is
   below len <= capacity).  That addresses computed this way are really the ones the code dereferences is
   checked at run time by the correspondence (capacities compared after every operation) and the
   address / allocator oracles of the harness (see DESIGN.md, C04: level partial).
   Model: Model/Layout.v, Model/Containers.v (arena).  Statements: Proofs/LayoutSpec.v, Proofs/ContSpec.v,
   Proofs/WorldSpec.v. *)
From Coq Require Import List NArith.
From HecsV Require Import Model.Types Model.Layout Model.Containers Proofs.LayoutSpec Proofs.LayoutProofs Proofs.ContSpec
  Proofs.ContProofs1 Proofs.WorldSpec Proofs.WorldTheorems Proofs.WorldProofs1 Proofs.CapsProofs.
Import ListNotations.
Open Scope N_scope.

(* capacity arithmetic: allocate / spawn_batch / reserve / column batches never leave len > capacity *)
Theorem c04_capacity : c04_capacity_stmt.               Proof. exact c04_capacity_proof. Qed.
(* dangling base pointers are aligned for every column because types are sorted by descending alignment *)
Theorem c04_dangling : c04_dangling_stmt.               Proof. exact c04_dangling_proof. Qed.
(* slots: aligned, inside size*capacity, pairwise disjoint *)
Theorem c04_slots : c04_slots_stmt.                     Proof. exact c04_slots_proof. Qed.
Theorem c04_swap_remove_disjoint : c04_swap_remove_disjoint_stmt. Proof. exact c04_swap_remove_disjoint_proof. Qed.
(* align() and the bump arena of EntityBuilder / CommandBuffer *)
Theorem c04_align : c04_align_stmt.                     Proof. exact c04_align_proof. Qed.
Theorem c04_arena : c04_arena_stmt.                     Proof. exact c04_arena_proof. Qed.
(* every reachable world satisfies the invariant, whose clauses say that every location names an existing
   row of an existing archetype holding exactly that entity (indices used are < len) *)
Theorem c04_reachable : reachable_inv_stmt.             Proof. exact reachable_inv_proof. Qed.

(* the capacity shadow the correspondence check compares with the real Archetype::capacity() after every
   operation never falls below the number of rows, whatever the operation (Model/WorldRun.v caps_after) *)
Theorem c04_shadow : c04_shadow_stmt.                   Proof. exact c04_shadow_proof. Qed.

(* non-vacuity: an over-aligned zero-sized type next to a 1-byte type *)
Example c04_nonvacuous :
  let u : universe := [{| ti_align := 64; ti_size := 0; ti_rank := 0 |}; {| ti_align := 1; ti_size := 1; ti_rank := 1 |}] in
  assert_type_info u [0; 1] = 0 /\ dangling_base u [0; 1] 1 0 = 64 /\ cap_push 64 64 = 128 /\ cap_reserve 64 63 2 = 128 /\
  cap_push_many 0 0 65 = 128.
Proof. vm_compute. repeat split; reflexivity. Qed.

Print Assumptions c04_capacity. Print Assumptions c04_dangling. Print Assumptions c04_slots.
Print Assumptions c04_swap_remove_disjoint. Print Assumptions c04_align. Print Assumptions c04_arena.
Print Assumptions c04_reachable. Print Assumptions c04_shadow.
