(* C13: Entity builders reflect the last value added per type, through every reuse.
   Model: Model/Containers.v (common: EntityBuilder / EntityBuilderClone / BuiltEntityClone).
   Statements: Proofs/ContSpec.v. *)
From Coq Require Import List NArith.
From HecsV Require Import Proofs.ContSpec Proofs.ContProofs1.

(* the index table names exactly the positions of info in every reachable state (add, clear, build,
   clone-build with re-sorting, conversion back, clone) *)
Theorem c13_inv : c13_inv_stmt.                     Proof. exact c13_inv_proof. Qed.
(* has / get / component_types are exactly the contents *)
Theorem c13_observers : c13_observers_stmt.         Proof. exact c13_observers_proof. Qed.
(* the latest value wins, a replaced value is dropped once, other types untouched *)
Theorem c13_add : c13_add_stmt.                     Proof. exact c13_add_proof. Qed.
Theorem c13_clear_build : c13_clear_build_stmt.     Proof. exact c13_clear_build_proof. Qed.
(* clones are independent copies *)
Theorem c13_clone : c13_clone_stmt.                 Proof. exact c13_clone_proof. Qed.

Print Assumptions c13_inv. Print Assumptions c13_observers. Print Assumptions c13_add.
Print Assumptions c13_clear_build. Print Assumptions c13_clone.
