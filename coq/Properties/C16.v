(* C16: Reserved entities: consistent before flush, never lost by structural operations.
   Allocator level: Proofs/EntitiesSpec.v.  World level: Proofs/WorldSpec.v, where a reserved handle
   denotes an entity without components ([abs w h = Some []]) and every per-entity accessor is
   characterised through [abs] alone - hence uniformly for recycled and brand-new ids. *)
From Coq Require Import List NArith.
From HecsV Require Import Model.EntityBits Model.Entities Model.World Model.Query
  Proofs.EntitiesSpec Proofs.EntitiesProofs Proofs.WorldSpec Proofs.WorldProofs1 Proofs.QuerySpec Proofs.QueryProofs.
Import ListNotations.
Open Scope N_scope.

(* allocator: after any history and any sequence of reservations, every reserved handle - from the
   free list or brand new - is contained, has the placeholder location of the empty archetype, and
   has no row yet *)
Theorem c16_reserved_uniform : EntitiesSpec.c16_reserved_uniform.
Proof. exact c16_reserved_uniform_proof. Qed.
(* the allocator refuses every structural entry point while reservations are outstanding *)
Theorem c16_must_flush : EntitiesSpec.c16_must_flush.
Proof. exact c16_must_flush_proof. Qed.

(* world: a reservation makes the handle denote the empty entity at once, and changes nothing else *)
Theorem c16_reserve_refines : reserve_refines_stmt.
Proof. exact reserve_refines_proof. Qed.
(* contains / entity / get agree with each other on every handle (they are all functions of abs) *)
Theorem c16_accessors_agree : accessors_agree_stmt.
Proof. exact accessors_agree_proof. Qed.
(* query_one and satisfies are functions of abs as well: a reserved handle answers like an entity
   with no components *)
Theorem c16_query_one : c08_query_one_stmt.
Proof. exact c08_query_one_proof. Qed.
(* iteration, queries, len and views only see entities that have a row: reserved ones are excluded *)
Theorem c16_iter_excludes : c08_iter_stmt.
Proof. exact c08_iter_proof. Qed.
Theorem c16_view_excludes : c08_view_stmt.
Proof. exact c08_view_proof. Qed.
(* flush turns every reservation into a real empty entity: what each handle denotes is unchanged,
   nothing is left reserved, every live handle has a row *)
Theorem c16_flush : flush_refines_stmt.
Proof. exact flush_refines_proof. Qed.
(* structural operations flush first: their result is a flushed world whose other entities -
   including all formerly reserved ones - denote what they denoted before *)
Theorem c16_despawn_flushes : despawn_refines_stmt.
Proof. exact despawn_refines_proof. Qed.
Theorem c16_take_flushes : take_drop_refines_stmt.
Proof. exact take_drop_refines_proof. Qed.

(* non-vacuity: reservations drawn from the free list and from fresh ids, before the flush *)
Example c16_nonvacuous :
  let l := {| l_arch := 0; l_idx := 0 |} in
  let '(e0, _) := erun ents_empty [OSpawn l; OSpawn l; ODespawn {| e_id := 0; e_gen := 1 |}] in
  let '(e1, tr) := erun e0 [OReserve; OReserve] in
  returned tr = [{| e_id := 0; e_gen := 2 |}; {| e_id := 2; e_gen := 1 |}] /\
  map (contains e1) (returned tr) = [true; true] /\ map (get e1) (returned tr) = [Some EMPTY_LOC; Some EMPTY_LOC].
Proof. vm_compute. repeat split; reflexivity. Qed.

Print Assumptions c16_reserved_uniform.
Print Assumptions c16_must_flush.
Print Assumptions c16_reserve_refines.
Print Assumptions c16_accessors_agree.
Print Assumptions c16_query_one.
Print Assumptions c16_iter_excludes.
Print Assumptions c16_view_excludes.
Print Assumptions c16_flush.
Print Assumptions c16_despawn_flushes.
Print Assumptions c16_take_flushes.
