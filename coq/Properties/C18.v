(* C18: ChangeTracker reports exactly the difference between consecutive snapshots.
   Model: Model/Tracker.v.  Statements: Proofs/TrackerSpec.v. *)
From Coq Require Import List NArith.
From HecsV Require Import Model.Tracker Proofs.TrackerSpec Proofs.TrackerProofs.
Import ListNotations.
Open Scope N_scope.

(* the three reports, declaratively, each entity at most once *)
Theorem c18_sets : c18_sets_stmt.                           Proof. exact c18_sets_proof. Qed.
(* one track call with ANY consumption script: first report of each kind = the difference at the
   call; afterwards Previous = T on exactly the live entities with a T; the world is untouched *)
Theorem c18_track : c18_track_stmt.                         Proof. exact c18_track_proof. Qed.
(* what was read, in which order, or whether anything was read at all, does not matter afterwards *)
Theorem c18_script_irrelevant : c18_script_irrelevant_stmt. Proof. exact c18_script_irrelevant_proof. Qed.
(* from a snapshot through any mutations: added / changed / removed relative to the previous call *)
Theorem c18_diff : c18_diff_stmt.                           Proof. exact c18_diff_proof. Qed.
(* the preconditions hold in reachable worlds; despawn takes the hidden component along *)
Theorem c18_nodup : c18_nodup_stmt.                         Proof. exact c18_nodup_proof. Qed.
Theorem c18_despawn : c18_despawn_stmt.                     Proof. exact c18_despawn_proof. Qed.

(* spawn_at keeps the preconditions too, and the entity that answers to the handle afterwards is reported as added *)
Theorem c18_spawn_at : c18_spawn_at_stmt.                   Proof. exact c18_spawn_at_proof. Qed.

(* every mutation that keeps live entities live (spawn, insert, remove, exchange, batches) keeps them as well *)
Theorem c18_frame : c18_frame_stmt.                         Proof. exact c18_frame_proof. Qed.

(* a second call right after a first one reports nothing *)
Theorem c18_quiet : c18_quiet_stmt.                         Proof. exact c18_quiet_proof. Qed.

(* non-vacuity: overwrite-with-equal, change, remove-then-re-add, despawn with id reuse; reads in the
   order removed, changed (twice), added *)
Example c18_nonvacuous :
  run_tracker [1; 3; 1; 2; 1; 1; 6; 0;   3; 0; 3; 3; 1; 9; 4; 2; 3; 2; 5; 5; 2; 1; 7;   6; 4; 2; 255; 1; 255; 1; 255; 0; 255]
  = [4294967296; 4294967297; 4294967298;  0; 0; 0; 0; 0; 8589934594;  0;  1; 4294967297; 2; 9;  0;  1; 8589934594; 7].
Proof. vm_compute. reflexivity. Qed.

(* id 0 is freed, reused under generation 2 and tracked; spawn_at on the dead first handle evicts that holder; a column
   batch of two rows takes the freed id 1 and a fresh one: all three are reported as added, nothing as changed or removed *)
Example c18_nonvacuous_spawn_at :
  run_tracker [1; 0; 1; 4; 5; 0; 1; 8; 6; 0;   8; 0; 2; 5; 1; 7; 2; 1;   6; 3; 0; 255; 1; 255; 2; 255]
  = [4294967296; 4294967297; 0; 8589934592;  0; 0; 8589934593; 4294967298;  3; 4294967296; 2; 4294967298; 3; 8589934593; 1;  0;  0].
Proof. vm_compute. reflexivity. Qed.

Print Assumptions c18_sets. Print Assumptions c18_track. Print Assumptions c18_script_irrelevant.
Print Assumptions c18_diff. Print Assumptions c18_nodup. Print Assumptions c18_despawn. Print Assumptions c18_spawn_at. Print Assumptions c18_frame. Print Assumptions c18_quiet.
