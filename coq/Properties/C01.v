(* C01: World is observationally a map Entity -> set of typed components.
   Model: Model/{Entities,World}.v.  abs, WInv and the statements: Proofs/WorldSpec.v.
   Every operation refines the map semantics: the invariant is preserved, the operation's result is
   what the map dictates, and every handle the operation does not name denotes exactly the same
   component list afterwards (frame).  Reserved-but-unflushed handles denote the empty entity, so
   flushing is invisible. *)
From Coq Require Import List NArith.
From HecsV Require Import Model.EntityBits Model.Types Model.Entities Model.World Proofs.WorldSpec
  Proofs.WorldProofs1 Proofs.WorldProofs2 Proofs.WorldProofs3 Proofs.WorldProofs4 Proofs.WorldTheorems
  Proofs.InterpSpec Proofs.InterpProofs.
Import ListNotations.
Open Scope N_scope.

Theorem c01_new : world_new_inv_stmt.             Proof. exact world_new_inv_proof. Qed.
Theorem c01_flush : flush_refines_stmt.           Proof. exact flush_refines_proof. Qed.
Theorem c01_reserve : reserve_refines_stmt.       Proof. exact reserve_refines_proof. Qed.
Theorem c01_spawn : spawn_refines_stmt.           Proof. exact spawn_refines_proof. Qed.
Theorem c01_spawn_at : spawn_at_refines_stmt.     Proof. exact spawn_at_refines_proof. Qed.
Theorem c01_insert : insert_refines_stmt.         Proof. exact insert_refines_proof. Qed.
Theorem c01_remove : remove_refines_stmt.         Proof. exact remove_refines_proof. Qed.
Theorem c01_exchange : exchange_refines_stmt.     Proof. exact exchange_refines_proof. Qed.
Theorem c01_despawn : despawn_refines_stmt.       Proof. exact despawn_refines_proof. Qed.
Theorem c01_take : take_drop_refines_stmt.        Proof. exact take_drop_refines_proof. Qed.
Theorem c01_clear : clear_refines_stmt.           Proof. exact clear_refines_proof. Qed.
Theorem c01_column_batch : column_batch_refines_stmt. Proof. exact column_batch_refines_proof. Qed.
(* every state reachable from World::new() by any finite history satisfies the invariant *)
Theorem c01_reachable : reachable_inv_stmt.       Proof. exact reachable_inv_proof. Qed.
(* and under the invariant every read accessor is a function of the map *)
Theorem c01_accessors : accessors_agree_stmt.     Proof. exact accessors_agree_proof. Qed.
Theorem c01_iter : iter_matches_abs_stmt.         Proof. exact iter_matches_abs_proof. Qed.
(* without the id-space bound the iteration statement is false (row index 2^32-1 is the placeholder) *)
Theorem c01_iter_nofits_refuted : ~ iter_matches_abs_nofits_stmt. Proof. exact iter_matches_abs_stmt_false. Qed.
(* accepted operations never panic *)
Theorem c01_despawn_total : despawn_never_panics_stmt. Proof. exact despawn_never_panics_proof. Qed.
Theorem c01_insert_total : insert_never_panics_stmt.   Proof. exact insert_never_panics_proof. Qed.

(* the script interpreter that is compared with the real code on every run (Model/WorldRun.v): for EVERY
   script - any list of numbers, every opcode incl. containers, command buffers, guards, serde - every live
   world it holds satisfies the invariant after every operation, as long as the id space lasts; so the
   theorems above apply to every state the correspondence check ever compares *)
Theorem c01_interpreter_step : interp_step_inv_wf_stmt. Proof. exact interp_step_inv_wf_proof. Qed.
Theorem c01_interpreter : interp_run_inv_stmt.          Proof. exact interp_run_inv_proof. Qed.
(* from an arbitrary (unreachable) interpreter state the step statement is false: a handle table holding a
   generation-0 handle lets spawn_at write generation 0 *)
Theorem c01_interpreter_anystate_refuted : ~ interp_step_inv_stmt. Proof. exact interp_step_inv_stmt_false. Qed.

(* non-vacuity: a history through free-list reuse, an edge-cache hit and a swap-remove *)
Example c01_nonvacuous :
  let u : universe := [{| ti_align := 4; ti_size := 4; ti_rank := 0 |}; {| ti_align := 8; ti_size := 8; ti_rank := 1 |}] in
  let b0 := {| b_key := Some [0; 0]; b_items := [(0, 5)] |} in
  let b1 := {| b_key := Some [0; 1]; b_items := [(1, 6)] |} in
  let e := fun i g => {| e_id := i; e_gen := g |} in
  let ops := [WSpawn b0; WSpawn b0; WInsert (e 0 1) b1; WInsert (e 1 1) b1; WDespawn (e 0 1); WSpawn b0;
              WRemove (e 1 1) [0; 0] [0]; WReserve1; WFlush] in
  match rev (wrun u world_new ops) with
  | w :: _ => length (wrun u world_new ops) = 10%nat /\ abs w (e 1 1) = Some [(1, 6)] /\ abs w (e 0 2) = Some [(0, 5)] /\
              abs w (e 0 1) = None /\ abs w (e 2 1) = Some [] /\ w_len w = 3
  | [] => False
  end.
Proof. vm_compute. repeat split; reflexivity. Qed.

Print Assumptions c01_new. Print Assumptions c01_flush. Print Assumptions c01_reserve.
Print Assumptions c01_spawn. Print Assumptions c01_spawn_at. Print Assumptions c01_insert.
Print Assumptions c01_remove. Print Assumptions c01_exchange. Print Assumptions c01_despawn.
Print Assumptions c01_take. Print Assumptions c01_clear. Print Assumptions c01_column_batch.
Print Assumptions c01_reachable. Print Assumptions c01_accessors. Print Assumptions c01_iter.
Print Assumptions c01_iter_nofits_refuted. Print Assumptions c01_despawn_total. Print Assumptions c01_insert_total.
Print Assumptions c01_interpreter_step. Print Assumptions c01_interpreter. Print Assumptions c01_interpreter_anystate_refuted.
