(* C09: Failed operations have no effect.  Statements: Proofs/WorldSpec2.v (names c09_...), built on the
   refinement theorems: an operation reports NoSuchEntity / MissingComponent exactly when the map
   semantics say so, and then every handle denotes what it denoted before and exactly the same
   values are stored (the rejected bundle stays with - and is dropped by - its owner). *)
From Coq Require Import List NArith.
From HecsV Require Import Model.World Proofs.WorldSpec Proofs.WorldSpec2 Proofs.CorollaryProofs Proofs.WorldProofs4.
Import ListNotations.

Theorem c09_insert_error : c09_insert_error_stmt.     Proof. exact c09_insert_error_proof. Qed.
Theorem c09_remove_error : c09_remove_error_stmt.     Proof. exact c09_remove_error_proof. Qed.
Theorem c09_exchange_error : c09_exchange_error_stmt. Proof. exact c09_exchange_error_proof. Qed.
Theorem c09_despawn_error : c09_despawn_error_stmt.   Proof. exact c09_despawn_error_proof. Qed.
Theorem c09_get_error : c09_get_error_stmt.           Proof. exact c09_get_error_proof. Qed.
(* remove is all-or-nothing: the full refinement statement (WMissing case leaves abs unchanged) *)
Theorem c09_remove_all_or_nothing : remove_refines_stmt. Proof. exact WorldProofs4.remove_refines_proof. Qed.

Print Assumptions c09_insert_error. Print Assumptions c09_remove_error. Print Assumptions c09_exchange_error.
Print Assumptions c09_despawn_error. Print Assumptions c09_get_error. Print Assumptions c09_remove_all_or_nothing.
