(* C19: Entity bit encoding is a faithful bijection consistent with equality and order *)
From Coq Require Import List NArith ZArith Lia.
From HecsV Require Import Model.EntityBits Proofs.EntityBitsProofs.
Open Scope N_scope.

(* every handle (id < 2^32, 0 < generation < 2^32) survives to_bits/from_bits *)
Theorem c19_roundtrip : forall e, valid_entity e -> from_bits (to_bits e) = Some e.
Proof. exact roundtrip. Qed.

(* from_bits rejects exactly the 64-bit patterns whose upper half is zero *)
Theorem c19_rejects_exactly : forall b, b < W64 -> (from_bits b = None <-> b / W32 = 0).
Proof. exact from_bits_none. Qed.

(* from_bits is injective on 64-bit patterns: whatever it accepts maps back to the same bits *)
Theorem c19_from_to : forall b e, b < W64 -> from_bits b = Some e -> valid_entity e /\ to_bits e = b.
Proof. intros b e Hb H. split; [exact (from_bits_valid b e H)|exact (from_to b e Hb H)]. Qed.

(* to_bits never yields 0 (NonZeroU64) and stays within 64 bits *)
Theorem c19_nonzero : forall e, valid_entity e -> to_bits e <> 0 /\ to_bits e < W64.
Proof. exact to_bits_nonzero. Qed.

(* equality (and therefore hashing, which is derived from the same two fields) agrees with
   equality of bit patterns; ordering is the lexicographic order on (id, generation) and a
   strict total order *)
Theorem c19_eq_order :
  (forall a b, valid_entity a -> valid_entity b -> (entity_eqb a b = true <-> to_bits a = to_bits b)) /\
  (forall a b, entity_cmp a b = Eq <-> a = b) /\
  (forall a b, entity_cmp a b = Lt <-> (e_id a < e_id b \/ (e_id a = e_id b /\ e_gen a < e_gen b))) /\
  (forall a b, entity_cmp b a = CompOpp (entity_cmp a b)) /\
  (forall a b c, entity_cmp a b = Lt -> entity_cmp b c = Lt -> entity_cmp a c = Lt).
Proof.
  exact (conj eq_iff_bits (conj cmp_eq_iff (conj cmp_lex (conj cmp_antisym cmp_trans)))).
Qed.

(* the serde form of a handle is its bit pattern, and decoding accepts exactly what from_bits accepts *)
Theorem c19_serde : forall e, valid_entity e -> de_entity (ser_entity e) = Some e.
Proof. exact roundtrip. Qed.

(* non-vacuity: DANGLING and a small handle are valid handles *)
Example c19_nonvacuous : valid_entity DANGLING /\ valid_entity {| e_id := 7; e_gen := 3 |}
                         /\ from_bits (to_bits DANGLING) = Some DANGLING
                         /\ from_bits 4294967295 = None.
Proof. split; [exact dangling_valid|]. split; [unfold valid_entity, W32; cbn; lia|]. split; vm_compute; reflexivity. Qed.

Print Assumptions c19_roundtrip.
Print Assumptions c19_rejects_exactly.
Print Assumptions c19_from_to.
Print Assumptions c19_nonzero.
Print Assumptions c19_eq_order.
Print Assumptions c19_serde.
