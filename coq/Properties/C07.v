(* C07: Concurrent entity reservation hands out distinct, valid handles.
   Every reserve/contains call performs exactly one atomic operation on the cursor and reads only data
   that is immutable under &self, so an interleaving of calls from any number of threads, at
   atomic-step granularity, is a sequence of calls; the theorem quantifies over all such sequences. *)
From Coq Require Import List NArith.
From HecsV Require Import Model.EntityBits Model.Entities Proofs.EntitiesSpec Proofs.EntitiesProofs.
Import ListNotations.
Open Scope N_scope.

Theorem c07_reserve : EntitiesSpec.c07_reserve.
Proof. exact c07_reserve_proof. Qed.

Example c07_nonvacuous :
  let l := {| l_arch := 0; l_idx := 0 |} in
  let ops := [OSpawn l; OSpawn l; OSpawn l; ODespawn {| e_id := 0; e_gen := 1 |}; ODespawn {| e_id := 2; e_gen := 1 |}] in
  let '(e0, _) := erun ents_empty ops in
  let '(e1, tr) := erun e0 [OReserve; OReserveN 3; OReserve] in
  needs_flush e0 = false /\
  returned tr = [{| e_id := 2; e_gen := 2 |}; {| e_id := 0; e_gen := 2 |}; {| e_id := 3; e_gen := 1 |};
                 {| e_id := 4; e_gen := 1 |}; {| e_id := 5; e_gen := 1 |}].
Proof. vm_compute. split; reflexivity. Qed.

Print Assumptions c07_reserve.
