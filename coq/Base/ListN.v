(* Lists indexed by binary naturals.  The model never converts an index to [nat]:
   the "no row" sentinel 2^32-1 and other word-sized constants occur as indices. *)
From Coq Require Import List NArith ZArith Lia ZifyBool ZifyNat ZifyN.
Import ListNotations.
Open Scope N_scope.

Fixpoint lenN {A} (l : list A) : N :=
  match l with [] => 0 | _ :: t => N.succ (lenN t) end.

Fixpoint nthN {A} (l : list A) (i : N) : option A :=
  match l with
  | [] => None
  | x :: t => if N.eqb i 0 then Some x else nthN t (N.pred i)
  end.

Fixpoint updN {A} (l : list A) (i : N) (v : A) : list A :=
  match l with
  | [] => []
  | x :: t => if N.eqb i 0 then v :: t else x :: updN t (N.pred i) v
  end.

(* first n elements / drop n elements *)
Fixpoint takeN {A} (n : N) (l : list A) : list A :=
  match l with
  | [] => []
  | x :: t => if N.eqb n 0 then [] else x :: takeN (N.pred n) t
  end.

Fixpoint dropN {A} (n : N) (l : list A) : list A :=
  match l with
  | [] => []
  | x :: t => if N.eqb n 0 then l else dropN (N.pred n) t
  end.

(* n copies; structural on a list-free measure is impossible, so use positive recursion *)
Definition repeatN {A} (x : A) (n : N) : list A :=
  N.recursion [] (fun _ acc => x :: acc) n.

(* the list [a; a+1; ...; a+n-1] *)
Definition seqN (a n : N) : list N :=
  N.recursion (fun _ => []) (fun _ rec s => s :: rec (N.succ s)) n a.

Fixpoint lastN {A} (l : list A) : option A :=
  match l with [] => None | [x] => Some x | _ :: t => lastN t end.

Fixpoint removelastN {A} (l : list A) : list A :=
  match l with [] => [] | [x] => [] | x :: t => x :: removelastN t end.

Fixpoint memN (x : N) (l : list N) : bool :=
  match l with [] => false | y :: t => if N.eqb x y then true else memN x t end.

Fixpoint positionN (x : N) (l : list N) : option N :=
  match l with
  | [] => None
  | y :: t => if N.eqb x y then Some 0
              else match positionN x t with Some i => Some (N.succ i) | None => None end
  end.

Fixpoint sumN (l : list N) : N := match l with [] => 0 | x :: t => x + sumN t end.
