From Coq Require Import List NArith ZArith Lia ZifyBool ZifyNat ZifyN.
From HecsV Require Import Base.ListN.
Import ListNotations.
Open Scope N_scope.

Lemma lenN_app {A} (l1 l2 : list A) : lenN (l1 ++ l2) = lenN l1 + lenN l2.
Proof. induction l1 as [|x l1 IH]; cbn [lenN app]; lia. Qed.

Lemma lenN_length {A} (l : list A) : lenN l = N.of_nat (length l).
Proof. induction l as [|x l IH]; cbn [lenN length]; lia. Qed.

Lemma lenN_map {A B} (f : A -> B) l : lenN (map f l) = lenN l.
Proof. induction l as [|x l IH]; cbn [lenN map]; lia. Qed.

Lemma lenN_nil_inv {A} (l : list A) : lenN l = 0 -> l = [].
Proof. destruct l; cbn [lenN]; [reflexivity|lia]. Qed.

Lemma nthN_Some_lt {A} (l : list A) i x : nthN l i = Some x -> i < lenN l.
Proof.
  revert i; induction l as [|y l IH]; intros i; cbn [nthN lenN]; [discriminate|].
  destruct (N.eqb_spec i 0) as [->|Hne]; [lia|]. intros H. apply IH in H. lia.
Qed.

Lemma nthN_None_ge {A} (l : list A) i : nthN l i = None -> lenN l <= i.
Proof.
  revert i; induction l as [|y l IH]; intros i; cbn [nthN lenN]; [lia|].
  destruct (N.eqb_spec i 0) as [->|Hne]; [discriminate|]. intros H. apply IH in H. lia.
Qed.

Lemma nthN_lt_Some {A} (l : list A) i : i < lenN l -> exists x, nthN l i = Some x.
Proof.
  intros H. destruct (nthN l i) as [x|] eqn:E; [eauto|]. apply nthN_None_ge in E. lia.
Qed.

Lemma nthN_In {A} (l : list A) i x : nthN l i = Some x -> In x l.
Proof.
  revert i; induction l as [|y l IH]; intros i; cbn [nthN]; [discriminate|].
  destruct (N.eqb_spec i 0); [intros [= ->]; left; reflexivity|intros H; right; eauto].
Qed.

Lemma In_nthN {A} (l : list A) x : In x l -> exists i, nthN l i = Some x.
Proof.
  induction l as [|y l IH]; [intros []|]. intros [->|H].
  - exists 0. reflexivity.
  - destruct (IH H) as [i Hi]. exists (N.succ i). cbn [nthN].
    destruct (N.eqb_spec (N.succ i) 0); [lia|]. rewrite N.pred_succ. exact Hi.
Qed.

Lemma lenN_updN {A} (l : list A) i v : lenN (updN l i v) = lenN l.
Proof.
  revert i; induction l as [|y l IH]; intros i; cbn [updN lenN]; [reflexivity|].
  destruct (N.eqb i 0); cbn [lenN]; [reflexivity|]. rewrite IH. reflexivity.
Qed.

Lemma nthN_updN_eq {A} (l : list A) i v : i < lenN l -> nthN (updN l i v) i = Some v.
Proof.
  revert i; induction l as [|y l IH]; intros i; cbn [updN lenN nthN]; [lia|].
  destruct (N.eqb_spec i 0) as [->|Hne]; cbn [nthN].
  - reflexivity.
  - destruct (N.eqb_spec i 0); [lia|]. intros H. apply IH. lia.
Qed.

Lemma nthN_updN_ne {A} (l : list A) i j v : i <> j -> nthN (updN l i v) j = nthN l j.
Proof.
  revert i j; induction l as [|y l IH]; intros i j Hne; cbn [updN nthN]; [reflexivity|].
  destruct (N.eqb_spec i 0) as [->|Hi]; cbn [nthN].
  - destruct (N.eqb_spec j 0); [lia|reflexivity].
  - destruct (N.eqb_spec j 0); [reflexivity|]. apply IH. lia.
Qed.

Lemma updN_ge {A} (l : list A) i v : lenN l <= i -> updN l i v = l.
Proof.
  revert i; induction l as [|y l IH]; intros i; cbn [updN lenN]; [reflexivity|].
  destruct (N.eqb_spec i 0) as [->|Hne]; [lia|]. intros H. f_equal. apply IH. lia.
Qed.

Lemma nthN_app1 {A} (l1 l2 : list A) i : i < lenN l1 -> nthN (l1 ++ l2) i = nthN l1 i.
Proof.
  revert i; induction l1 as [|y l IH]; intros i; cbn [app nthN lenN]; [lia|].
  destruct (N.eqb_spec i 0); [reflexivity|]. intros H. apply IH. lia.
Qed.

Lemma nthN_app2 {A} (l1 l2 : list A) i : lenN l1 <= i -> nthN (l1 ++ l2) i = nthN l2 (i - lenN l1).
Proof.
  revert i; induction l1 as [|y l IH]; intros i; cbn [app nthN lenN].
  - intros _. f_equal. lia.
  - destruct (N.eqb_spec i 0) as [->|Hne]; [lia|]. intros H. rewrite IH by lia. f_equal. lia.
Qed.

Lemma nthN_snoc_last {A} (l : list A) x : nthN (l ++ [x]) (lenN l) = Some x.
Proof. rewrite nthN_app2 by lia. rewrite N.sub_diag. reflexivity. Qed.

Lemma updN_app1 {A} (l1 l2 : list A) i v : i < lenN l1 -> updN (l1 ++ l2) i v = updN l1 i v ++ l2.
Proof.
  revert i; induction l1 as [|y l IH]; intros i; cbn [app updN lenN]; [lia|].
  destruct (N.eqb_spec i 0); [reflexivity|]. intros H. cbn [app]. f_equal. apply IH. lia.
Qed.

Lemma nthN_map {A B} (f : A -> B) l i : nthN (map f l) i = option_map f (nthN l i).
Proof.
  revert i; induction l as [|y l IH]; intros i; cbn [map nthN]; [reflexivity|].
  destruct (N.eqb i 0); [reflexivity|apply IH].
Qed.

Lemma nthN_ext {A} (l1 l2 : list A) : (forall i, nthN l1 i = nthN l2 i) -> l1 = l2.
Proof.
  revert l2; induction l1 as [|x l1 IH]; intros [|y l2] H.
  - reflexivity.
  - specialize (H 0). discriminate.
  - specialize (H 0). discriminate.
  - pose proof (H 0) as H0. cbn in H0. injection H0 as ->. f_equal. apply IH. intros i.
    specialize (H (N.succ i)). cbn [nthN] in H.
    destruct (N.eqb_spec (N.succ i) 0); [lia|]. rewrite N.pred_succ in H. exact H.
Qed.

(* sums of a measure over a list, and their behaviour under point update *)
Fixpoint sumf {A} (f : A -> N) (l : list A) : N :=
  match l with [] => 0 | x :: t => f x + sumf f t end.

Lemma sumf_updN {A} (f : A -> N) (l : list A) i old v :
  nthN l i = Some old -> sumf f (updN l i v) + f old = sumf f l + f v.
Proof.
  revert i; induction l as [|y l IH]; intros i; cbn [nthN updN sumf]; [discriminate|].
  destruct (N.eqb_spec i 0) as [->|Hne].
  - intros [= ->]. cbn [sumf]. lia.
  - intros H. cbn [sumf]. specialize (IH _ H). lia.
Qed.

Lemma sumf_app {A} (f : A -> N) l1 l2 : sumf f (l1 ++ l2) = sumf f l1 + sumf f l2.
Proof. induction l1 as [|x l1 IH]; cbn [app sumf]; lia. Qed.

Lemma sumf_zero {A} (f : A -> N) l : (forall x, In x l -> f x = 0) -> sumf f l = 0.
Proof.
  induction l as [|x l IH]; intros H; cbn [sumf]; [reflexivity|].
  rewrite (H x (or_introl eq_refl)), IH; [reflexivity|]. intros y Hy. apply H. right. exact Hy.
Qed.

Lemma sumf_zero_inv {A} (f : A -> N) l x : sumf f l = 0 -> In x l -> f x = 0.
Proof.
  induction l as [|y l IH]; cbn [sumf]; [intros _ []|]. intros H [->|Hin]; [lia|]. apply IH; [lia|exact Hin].
Qed.

Lemma memN_In x l : memN x l = true <-> In x l.
Proof.
  induction l as [|y l IH]; cbn [memN In]; [split; [discriminate|intros []]|].
  destruct (N.eqb_spec x y) as [->|Hne]; [split; auto|]. rewrite IH. split; [auto|intros [H|H]; [congruence|exact H]].
Qed.
