(* More facts about N-indexed lists, used by the allocator proofs. *)
From Coq Require Import List NArith ZArith Lia ZifyBool ZifyNat ZifyN Permutation.
From HecsV Require Import Base.ListN Base.ListNFacts.
Import ListNotations.
Open Scope N_scope.

(* ---------------------------------------------------------------- takeN / dropN *)
Lemma takeN_0 {A} (l : list A) : takeN 0 l = [].
Proof. destruct l; reflexivity. Qed.

Lemma dropN_0 {A} (l : list A) : dropN 0 l = l.
Proof. destruct l; reflexivity. Qed.

Lemma takeN_dropN_app {A} n (l : list A) : takeN n l ++ dropN n l = l.
Proof.
  revert n; induction l as [|x l IH]; intros n; cbn [takeN dropN app]; [reflexivity|].
  destruct (N.eqb_spec n 0); [reflexivity|]. cbn [app]. f_equal. apply IH.
Qed.

Lemma lenN_takeN {A} n (l : list A) : lenN (takeN n l) = N.min n (lenN l).
Proof.
  revert n; induction l as [|x l IH]; intros n; cbn [takeN lenN]; [lia|].
  destruct (N.eqb_spec n 0); cbn [lenN]; [lia|]. rewrite IH. lia.
Qed.

Lemma lenN_dropN {A} n (l : list A) : lenN (dropN n l) = lenN l - n.
Proof.
  revert n; induction l as [|x l IH]; intros n; cbn [dropN lenN]; [lia|].
  destruct (N.eqb_spec n 0); cbn [lenN]; [lia|]. rewrite IH. lia.
Qed.

Lemma dropN_all {A} n (l : list A) : lenN l <= n -> dropN n l = [].
Proof.
  intros H. apply lenN_nil_inv. rewrite lenN_dropN. lia.
Qed.

Lemma takeN_all {A} n (l : list A) : lenN l <= n -> takeN n l = l.
Proof.
  intros H. pose proof (takeN_dropN_app n l) as E. rewrite (dropN_all n l H), app_nil_r in E. exact E.
Qed.

Lemma nthN_dropN {A} n (l : list A) i : nthN (dropN n l) i = nthN l (n + i).
Proof.
  revert n; induction l as [|x l IH]; intros n; cbn [dropN nthN]; [reflexivity|].
  destruct (N.eqb_spec n 0) as [->|Hn].
  - cbn [nthN]. replace (0 + i) with i by lia. reflexivity.
  - rewrite IH. destruct (N.eqb_spec (n + i) 0); [lia|]. f_equal. lia.
Qed.

Lemma nthN_takeN {A} n (l : list A) i : i < n -> nthN (takeN n l) i = nthN l i.
Proof.
  revert n i; induction l as [|x l IH]; intros n i H; cbn [takeN nthN]; [reflexivity|].
  destruct (N.eqb_spec n 0); [lia|]. cbn [nthN].
  destruct (N.eqb_spec i 0); [reflexivity|]. apply IH. lia.
Qed.

Lemma dropN_dropN {A} a b (l : list A) : dropN a (dropN b l) = dropN (b + a) l.
Proof.
  apply nthN_ext. intros i. rewrite !nthN_dropN. f_equal. lia.
Qed.

Lemma dropN_nth_cons {A} (l : list A) i x : nthN l i = Some x -> dropN i l = x :: dropN (i + 1) l.
Proof.
  revert i; induction l as [|y l IH]; intros i; cbn [nthN dropN]; [discriminate|].
  destruct (N.eqb_spec i 0) as [->|Hi].
  - intros [= ->]. cbn. rewrite dropN_0. reflexivity.
  - intros H. destruct (N.eqb_spec (i + 1) 0); [lia|]. rewrite (IH _ H). do 2 f_equal. lia.
Qed.

Lemma In_takeN {A} n (l : list A) x : In x (takeN n l) -> In x l.
Proof. intros H. rewrite <- (takeN_dropN_app n l). apply in_or_app. left; exact H. Qed.

Lemma In_dropN {A} n (l : list A) x : In x (dropN n l) -> In x l.
Proof. intros H. rewrite <- (takeN_dropN_app n l). apply in_or_app. right; exact H. Qed.

Lemma In_dropN_le {A} a b (l : list A) x : a <= b -> In x (dropN b l) -> In x (dropN a l).
Proof.
  intros Hab H. replace b with (a + (b - a)) in H by lia. rewrite <- dropN_dropN in H.
  eapply In_dropN; exact H.
Qed.

Lemma In_split_takeN_dropN {A} n (l : list A) x : In x l -> In x (takeN n l) \/ In x (dropN n l).
Proof. intros H. rewrite <- (takeN_dropN_app n l) in H. apply in_app_or in H. exact H. Qed.

(* ---------------------------------------------------------------- NoDup *)
Lemma NoDup_app_intro {A} (l1 l2 : list A) :
  NoDup l1 -> NoDup l2 -> (forall x, In x l1 -> In x l2 -> False) -> NoDup (l1 ++ l2).
Proof.
  induction l1 as [|x l1 IH]; intros H1 H2 Hd; cbn [app]; [exact H2|].
  inversion H1 as [|? ? Hx H1']; subst. constructor.
  - intros Hin. apply in_app_or in Hin. destruct Hin as [Hin|Hin]; [exact (Hx Hin)|].
    apply (Hd x); [left; reflexivity|exact Hin].
  - apply IH; [exact H1'|exact H2|]. intros y Hy1 Hy2. apply (Hd y); [right; exact Hy1|exact Hy2].
Qed.

Lemma NoDup_app_inv {A} (l1 l2 : list A) :
  NoDup (l1 ++ l2) -> NoDup l1 /\ NoDup l2 /\ (forall x, In x l1 -> In x l2 -> False).
Proof.
  induction l1 as [|x l1 IH]; cbn [app]; intros H.
  - split; [constructor|]. split; [exact H|]. intros x [].
  - inversion H as [|? ? Hx H']; subst. destruct (IH H') as (H1 & H2 & Hd).
    split; [|split].
    + constructor; [|exact H1]. intros Hin. apply Hx. apply in_or_app. left; exact Hin.
    + exact H2.
    + intros y [->|Hy1] Hy2.
      * apply Hx. apply in_or_app. right; exact Hy2.
      * exact (Hd y Hy1 Hy2).
Qed.

Lemma NoDup_takeN {A} n (l : list A) : NoDup l -> NoDup (takeN n l).
Proof. intros H. rewrite <- (takeN_dropN_app n l) in H. apply NoDup_app_inv in H. tauto. Qed.

Lemma NoDup_dropN {A} n (l : list A) : NoDup l -> NoDup (dropN n l).
Proof. intros H. rewrite <- (takeN_dropN_app n l) in H. apply NoDup_app_inv in H. tauto. Qed.

Lemma NoDup_takeN_dropN_disj {A} n (l : list A) x :
  NoDup l -> In x (takeN n l) -> In x (dropN n l) -> False.
Proof.
  intros H. rewrite <- (takeN_dropN_app n l) in H. apply NoDup_app_inv in H.
  destruct H as (_ & _ & Hd). apply Hd.
Qed.

Lemma NoDup_map_inj {A B} (f : A -> B) l :
  (forall x y, In x l -> In y l -> f x = f y -> x = y) -> NoDup l -> NoDup (map f l).
Proof.
  induction l as [|x l IH]; intros Hinj H; cbn [map]; [constructor|].
  inversion H as [|? ? Hx H']; subst. constructor.
  - intros Hin. apply in_map_iff in Hin. destruct Hin as (y & Hy & Hyin).
    assert (y = x) as -> by (apply Hinj; [right; exact Hyin|left; reflexivity|exact Hy]).
    exact (Hx Hyin).
  - apply IH; [|exact H']. intros a b Ha Hb. apply Hinj; right; assumption.
Qed.

Lemma NoDup_map_proj {A B} (f : A -> B) l : NoDup (map f l) -> NoDup l.
Proof.
  induction l as [|x l IH]; cbn [map]; intros H; [constructor|].
  inversion H as [|? ? Hx H']; subst. constructor; [|exact (IH H')].
  intros Hin. apply Hx. apply in_map. exact Hin.
Qed.

(* ---------------------------------------------------------------- lastN / removelastN *)
Lemma lastN_None {A} (l : list A) : lastN l = None -> l = [].
Proof.
  induction l as [|x l IH]; [reflexivity|]. cbn [lastN]. destruct l as [|y l]; [discriminate|].
  intros H. specialize (IH H). discriminate.
Qed.

Lemma lastN_Some {A} (l : list A) x : lastN l = Some x -> l = removelastN l ++ [x].
Proof.
  induction l as [|y l IH]; [discriminate|]. cbn [lastN removelastN]. destruct l as [|z l].
  - intros [= ->]. reflexivity.
  - intros H. cbn [app]. f_equal. exact (IH H).
Qed.

Lemma lastN_snoc {A} (l : list A) x : lastN (l ++ [x]) = Some x.
Proof.
  induction l as [|y l IH]; [reflexivity|]. cbn [app lastN].
  destruct (l ++ [x]) eqn:E; [destruct l; discriminate|]. exact IH.
Qed.

Lemma removelastN_snoc {A} (l : list A) x : removelastN (l ++ [x]) = l.
Proof.
  induction l as [|y l IH]; [reflexivity|]. cbn [app removelastN].
  destruct (l ++ [x]) eqn:E; [destruct l; discriminate|]. f_equal. exact IH.
Qed.

(* ---------------------------------------------------------------- seqN / repeatN *)
Lemma seqN_0 a : seqN a 0 = [].
Proof. reflexivity. Qed.

Lemma seqN_succ a n : seqN a (N.succ n) = a :: seqN (N.succ a) n.
Proof.
  unfold seqN. rewrite (N.recursion_succ (A := N -> list N) eq); [reflexivity|reflexivity|].
  intros x y -> f g ->. reflexivity.
Qed.

Lemma lenN_seqN a n : lenN (seqN a n) = n.
Proof.
  revert a; induction n as [|n IH] using N.peano_ind; intros a; [reflexivity|].
  rewrite seqN_succ. cbn [lenN]. rewrite IH. reflexivity.
Qed.

Lemma In_seqN a n x : In x (seqN a n) <-> a <= x < a + n.
Proof.
  revert a; induction n as [|n IH] using N.peano_ind; intros a.
  - rewrite seqN_0. cbn [In]. lia.
  - rewrite seqN_succ. cbn [In]. rewrite IH. lia.
Qed.

Lemma NoDup_seqN a n : NoDup (seqN a n).
Proof.
  revert a; induction n as [|n IH] using N.peano_ind; intros a.
  - rewrite seqN_0. constructor.
  - rewrite seqN_succ. constructor; [|apply IH]. rewrite In_seqN. lia.
Qed.

Lemma nthN_seqN a n i : i < n -> nthN (seqN a n) i = Some (a + i).
Proof.
  revert a i; induction n as [|n IH] using N.peano_ind; intros a i H; [lia|].
  rewrite seqN_succ. cbn [nthN]. destruct (N.eqb_spec i 0) as [->|Hi].
  - f_equal. lia.
  - rewrite IH by lia. f_equal. lia.
Qed.

Lemma repeatN_0 {A} (x : A) : repeatN x 0 = [].
Proof. reflexivity. Qed.

Lemma repeatN_succ {A} (x : A) n : repeatN x (N.succ n) = x :: repeatN x n.
Proof.
  unfold repeatN. rewrite (N.recursion_succ (A := list A) eq); [reflexivity|reflexivity|].
  intros a b -> f g ->. reflexivity.
Qed.

Lemma lenN_repeatN {A} (x : A) n : lenN (repeatN x n) = n.
Proof.
  induction n as [|n IH] using N.peano_ind; [reflexivity|].
  rewrite repeatN_succ. cbn [lenN]. rewrite IH. reflexivity.
Qed.

Lemma In_repeatN {A} (x y : A) n : In y (repeatN x n) -> y = x.
Proof.
  induction n as [|n IH] using N.peano_ind; [intros []|].
  rewrite repeatN_succ. intros [->|H]; [reflexivity|exact (IH H)].
Qed.

Lemma nthN_repeatN {A} (x : A) n i : i < n -> nthN (repeatN x n) i = Some x.
Proof.
  intros H. destruct (nthN_lt_Some (repeatN x n) i) as [y Hy]; [rewrite lenN_repeatN; exact H|].
  rewrite Hy. f_equal. eapply In_repeatN. eapply nthN_In. exact Hy.
Qed.

(* ---------------------------------------------------------------- positionN / nthN split *)
Lemma positionN_Some x l i : positionN x l = Some i -> nthN l i = Some x.
Proof.
  revert i; induction l as [|y l IH]; intros i; cbn [positionN]; [discriminate|].
  destruct (N.eqb_spec x y) as [->|Hne].
  - intros [= <-]. reflexivity.
  - destruct (positionN x l) as [j|]; [|discriminate]. intros [= <-]. cbn [nthN].
    destruct (N.eqb_spec (N.succ j) 0); [lia|]. rewrite N.pred_succ. apply IH. reflexivity.
Qed.

Lemma positionN_None x l : positionN x l = None -> ~ In x l.
Proof.
  induction l as [|y l IH]; cbn [positionN In]; [tauto|].
  destruct (N.eqb_spec x y) as [->|Hne]; [discriminate|].
  destruct (positionN x l) as [j|]; [discriminate|]. intros _ [H|H]; [congruence|]. exact (IH eq_refl H).
Qed.

Lemma nthN_split {A} (l : list A) i x :
  nthN l i = Some x -> exists a b, l = a ++ x :: b /\ lenN a = i.
Proof.
  intros H. exists (takeN i l), (dropN (i + 1) l). split.
  - rewrite <- (dropN_nth_cons l i x H). symmetry. apply takeN_dropN_app.
  - rewrite lenN_takeN. apply nthN_Some_lt in H. lia.
Qed.

Lemma updN_middle {A} (a b : list A) x v : updN (a ++ x :: b) (lenN a) v = a ++ v :: b.
Proof.
  induction a as [|y a IH]; cbn [app lenN updN]; [reflexivity|].
  destruct (N.eqb_spec (N.succ (lenN a)) 0); [lia|]. rewrite N.pred_succ, IH. reflexivity.
Qed.

(* swap_remove: overwrite position i with the last element, drop the last element *)
Lemma swap_remove_perm (l : list N) i x z :
  nthN l i = Some x -> lastN l = Some z ->
  Permutation l (x :: removelastN (updN l i z)).
Proof.
  intros Hi Hz. pose proof (lastN_Some l z Hz) as El.
  remember (removelastN l) as l' eqn:El'. clear El' Hz. subst l.
  pose proof (nthN_Some_lt _ _ _ Hi) as Hlt. rewrite lenN_app in Hlt. cbn [lenN] in Hlt.
  destruct (N.eq_dec i (lenN l')) as [->|Hne].
  - (* the removed element is the last one *)
    rewrite nthN_snoc_last in Hi. injection Hi as <-.
    replace (updN (l' ++ [z]) (lenN l') z) with (l' ++ [z]).
    + rewrite removelastN_snoc. symmetry. apply Permutation_cons_append.
    + apply nthN_ext. intros j. destruct (N.eq_dec j (lenN l')) as [->|Hj].
      * rewrite nthN_updN_eq by (rewrite lenN_app; cbn [lenN]; lia). apply nthN_snoc_last.
      * rewrite nthN_updN_ne by lia. reflexivity.
  - rewrite nthN_app1 in Hi by lia.
    destruct (nthN_split l' i x Hi) as (a & b & Eab & Ha).
    rewrite updN_app1 by lia. rewrite removelastN_snoc.
    subst l' i. rewrite updN_middle. rewrite <- app_assoc. cbn [app].
    (* a ++ x :: b ++ [z]  ~  x :: a ++ z :: b *)
    symmetry. etransitivity; [|apply Permutation_middle].
    constructor. apply Permutation_app_head. apply Permutation_cons_append.
Qed.

Lemma swap_remove_spec (l : list N) i x z :
  NoDup l -> nthN l i = Some x -> lastN l = Some z ->
  let l2 := removelastN (updN l i z) in
  NoDup l2 /\ (forall y, In y l2 <-> In y l /\ y <> x) /\ lenN l2 + 1 = lenN l.
Proof.
  intros Hnd Hi Hz l2. pose proof (swap_remove_perm l i x z Hi Hz) as P. fold l2 in P.
  pose proof (Permutation_NoDup P Hnd) as Hnd2. inversion Hnd2 as [|? ? Hx Hnd3]; subst.
  split; [exact Hnd3|]. split.
  - intros y. split.
    + intros Hy. split; [eapply Permutation_in; [symmetry; exact P|right; exact Hy]|].
      intros ->. exact (Hx Hy).
    + intros [Hy Hne]. apply (Permutation_in _ P) in Hy. destruct Hy as [->|Hy]; [congruence|exact Hy].
  - apply Permutation_length in P. rewrite !lenN_length. cbn [length] in P. lia.
Qed.

Lemma takeN_app_exact {A} (a b : list A) : takeN (lenN a) (a ++ b) = a.
Proof.
  induction a as [|x a IH]; cbn [app lenN takeN]; [apply takeN_0|].
  destruct (N.eqb_spec (N.succ (lenN a)) 0); [lia|]. rewrite N.pred_succ, IH. reflexivity.
Qed.

Lemma dropN_app_exact {A} (a b : list A) : dropN (lenN a) (a ++ b) = b.
Proof.
  induction a as [|x a IH]; cbn [app lenN dropN]; [apply dropN_0|].
  destruct (N.eqb_spec (N.succ (lenN a)) 0); [lia|]. rewrite N.pred_succ, IH. reflexivity.
Qed.

Lemma repeatN_1 {A} (x : A) : repeatN x 1 = [x].
Proof. change 1 with (N.succ 0). rewrite repeatN_succ, repeatN_0. reflexivity. Qed.

Lemma seqN_1 a : seqN a 1 = [a].
Proof. change 1 with (N.succ 0). rewrite seqN_succ, seqN_0. reflexivity. Qed.

Lemma memN_false x l : memN x l = false <-> ~ In x l.
Proof.
  rewrite <- memN_In. destruct (memN x l); split; intros H; congruence.
Qed.

Lemma In_map_seqN_nth {A} (g : N -> A) a n i :
  nthN (map g (seqN a n)) i = if N.ltb i n then Some (g (a + i)) else None.
Proof.
  rewrite nthN_map. destruct (N.ltb_spec i n) as [H|H].
  - rewrite nthN_seqN by exact H. reflexivity.
  - destruct (nthN (seqN a n) i) eqn:E; [|reflexivity].
    apply nthN_Some_lt in E. rewrite lenN_seqN in E. lia.
Qed.
