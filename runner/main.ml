(* Driver for the extracted model: one case per input line (unsigned decimal numbers < 2^64
   separated by blanks); prints the numbers returned by Model.run_case on one line. *)
open Model

let rec pos_of_int64 (x : int64) : positive =
  (* x > 0, interpreted unsigned *)
  if Int64.equal x 1L then XH
  else
    let rest = pos_of_int64 (Int64.shift_right_logical x 1) in
    if Int64.equal (Int64.logand x 1L) 1L then XI rest else XO rest

let n_of_string (s : string) : n =
  let x = Int64.of_string ("0u" ^ s) in
  if Int64.equal x 0L then N0 else Npos (pos_of_int64 x)

(* returns (value, number of bits) *)
let rec int64_of_pos (p : positive) : int64 * int =
  match p with
  | XH -> (1L, 1)
  | XO q -> let (v, b) = int64_of_pos q in (Int64.shift_left v 1, b + 1)
  | XI q -> let (v, b) = int64_of_pos q in (Int64.logor (Int64.shift_left v 1) 1L, b + 1)

(* positives are little-endian: the head constructor is the lowest bit *)
let rec low_first (p : positive) : (int64 * int) =
  match p with
  | XH -> (1L, 1)
  | XO q -> let (v, b) = low_first q in (Int64.shift_left v 1, b + 1)
  | XI q -> let (v, b) = low_first q in (Int64.logor (Int64.shift_left v 1) 1L, b + 1)

let string_of_n (x : n) : string =
  match x with
  | N0 -> "0"
  | Npos p ->
      let (v, bits) = low_first p in
      if bits > 64 then "OVERFLOW" else Printf.sprintf "%Lu" v

let rec to_coq_list = function [] -> [] | x :: t -> x :: to_coq_list t

let () =
  let buf = Buffer.create 65536 in
  (try
     while true do
       let line = input_line stdin in
       let toks = List.filter (fun s -> s <> "") (String.split_on_char ' ' (String.trim line)) in
       let args = List.map n_of_string toks in
       let out = run_case args in
       Buffer.clear buf;
       let first = ref true in
       List.iter (fun x ->
           if not !first then Buffer.add_char buf ' ';
           first := false;
           Buffer.add_string buf (string_of_n x)) out;
       print_string (Buffer.contents buf);
       print_newline ()
     done
   with End_of_file -> ())
