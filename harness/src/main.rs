//! Correspondence-check harness: runs the same numeric cases as the Coq model against the real
//! hecs built from /repo and prints the observations in the model's encoding.
//!
//! usage: hv run <cases-file>      one case per line: <engine> <args...>
//! Each output line: the observation numbers, optionally followed by " ! <oracle message>" when
//! the implementation-only property oracle found a violation on that case.
#![allow(clippy::all)]

mod alloc_track;
mod bits;
mod comps;
mod cont_engine;
mod derived;
mod gen_queries;
mod gen_tuples;
mod guard_engine;
mod query_engine;
mod sched;
mod serde_engine;
mod tok;
mod tracker_engine;
mod world_engine;

use std::io::{BufRead, BufWriter, Write};

#[global_allocator]
static GLOBAL: alloc_track::Tracker = alloc_track::Tracker;

pub struct Out {
    pub nums: Vec<u64>,
    pub oracle: Vec<String>,
}

impl Out {
    pub fn new() -> Self {
        Out { nums: Vec::new(), oracle: Vec::new() }
    }
    pub fn push(&mut self, x: u64) {
        self.nums.push(x);
    }
    pub fn flag(&mut self, msg: impl Into<String>) {
        self.oracle.push(msg.into());
    }
}

fn run_case(args: &[u64]) -> Out {
    let mut out = Out::new();
    match args.first() {
        Some(1) => world_engine::run(&args[1..], &mut out),
        Some(2) => world_engine::run_twin(&args[1..], &mut out),
        Some(18) => tracker_engine::run(&args[1..], &mut out),
        Some(19) => bits::run(&args[1..], &mut out),
        Some(6) => sched::run_borrow(&args[1..], &mut out),
        Some(60) => sched::stress_borrow(&args[1..], &mut out),
        Some(7) => sched::run_reserve(&args[1..], &mut out),
        Some(70) => sched::stress_reserve(&args[1..], &mut out),
        Some(17) => sched::stress_world_ids(&args[1..], &mut out),
        Some(71) => sched::reserve_exhaust(&args[1..], &mut out),
        _ => {}
    }
    out
}

fn main() {
    let argv: Vec<String> = std::env::args().collect();
    if argv.len() >= 2 && argv[1] == "universe" {
        // align size rank per component type
        let u = comps::universe();
        let v: Vec<String> = u.iter().map(|(a, s, r)| format!("{} {} {}", a, s, r)).collect();
        println!("{} {}", u.len(), v.join(" "));
        return;
    }
    if argv.len() < 3 || argv[1] != "run" {
        eprintln!("usage: hv run <cases-file>");
        std::process::exit(2);
    }
    // panics inside engines are caught and classified; keep stderr quiet
    std::panic::set_hook(Box::new(|_| {}));
    let f = std::fs::File::open(&argv[2]).expect("cases file");
    let stdout = std::io::stdout();
    let mut w = BufWriter::new(stdout.lock());
    for line in std::io::BufReader::new(f).lines() {
        let line = line.unwrap();
        let args: Vec<u64> = line.split_whitespace().map(|t| t.parse::<u64>().expect("number")).collect();
        let out = match std::panic::catch_unwind(|| run_case(&args)) {
            Ok(o) => o,
            Err(e) => {
                let msg = e.downcast_ref::<String>().cloned().or_else(|| e.downcast_ref::<&str>().map(|s| s.to_string())).unwrap_or_default();
                let mut o = Out::new();
                o.push(u64::MAX);
                o.flag(format!("engine panicked: {}", msg.replace('\n', " ")));
                o
            }
        };
        let mut out = out;
        // oracle verdicts recorded where no `Out` was at hand (also those of a case that panicked)
        for n in comps::take_notes() {
            out.flag(n);
        }
        let mut first = true;
        for x in &out.nums {
            if !first {
                w.write_all(b" ").unwrap();
            }
            first = false;
            write!(w, "{}", x).unwrap();
        }
        if !out.oracle.is_empty() {
            write!(w, " ! {}", out.oracle.join(" | ").replace('\n', " ").replace('\r', " ")).unwrap();
        }
        w.write_all(b"\n").unwrap();
        // a crash of the implementation must not lose the lines before it
        w.flush().unwrap();
    }
}
