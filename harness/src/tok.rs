//! A strict token-tree serde backend: the serializer records what hecs announces (lengths) next to
//! what it actually emits; the deserializer replays a (possibly mutated) tree either as a
//! self-describing format (lengths come from the data, leftovers are an error: like serde_json) or as
//! a length-driven one (tuples yield exactly what the caller asks for, sequences/maps what their
//! prefix says: like bincode).  Errors are returned, never panics.
use serde::de::{self, DeserializeSeed, MapAccess, SeqAccess, Visitor};
use serde::ser::{self, Serialize};
use std::fmt;

#[derive(Clone, Debug, PartialEq)]
pub enum Tok {
    N(u64),
    L(u64, Vec<Tok>),
    M(u64, Vec<(Tok, Tok)>),
}

#[derive(Debug)]
pub struct TErr(pub String);
impl fmt::Display for TErr {
    fn fmt(&self, f: &mut fmt::Formatter) -> fmt::Result {
        f.write_str(&self.0)
    }
}
impl std::error::Error for TErr {}
impl ser::Error for TErr {
    fn custom<T: fmt::Display>(m: T) -> Self {
        TErr(m.to_string())
    }
}
impl de::Error for TErr {
    fn custom<T: fmt::Display>(m: T) -> Self {
        TErr(m.to_string())
    }
}

impl Tok {
    /// encoding shared with the model: N -> [0, n]; L -> [1, ann, len, ...]; M -> [2, ann, len, k v ...]
    pub fn encode(&self, out: &mut Vec<u64>) {
        match self {
            Tok::N(n) => out.extend([0, *n]),
            Tok::L(a, l) => {
                out.extend([1, *a, l.len() as u64]);
                for x in l {
                    x.encode(out);
                }
            }
            Tok::M(a, l) => {
                out.extend([2, *a, l.len() as u64]);
                for (k, v) in l {
                    k.encode(out);
                    v.encode(out);
                }
            }
        }
    }
    pub fn lengths_ok(&self) -> bool {
        match self {
            Tok::N(_) => true,
            Tok::L(a, l) => *a == l.len() as u64 && l.iter().all(|x| x.lengths_ok()),
            Tok::M(a, l) => *a == l.len() as u64 && l.iter().all(|(k, v)| k.lengths_ok() && v.lengths_ok()),
        }
    }
    /// apply a mutation to the node with pre-order index `idx` (keys and values of maps count)
    pub fn mutate(&mut self, idx: &mut i64, kind: u64, param: u64) {
        if *idx < 0 {
            return;
        }
        if *idx == 0 {
            *idx = -1;
            match kind {
                0 => *self = Tok::N(param),
                1 => match self {
                    Tok::L(_, l) => {
                        l.pop();
                    }
                    Tok::M(_, l) => {
                        l.pop();
                    }
                    _ => {}
                },
                2 => match self {
                    Tok::L(_, l) => {
                        if let Some(x) = l.first().cloned() {
                            l.push(x)
                        }
                    }
                    Tok::M(_, l) => {
                        if let Some(x) = l.first().cloned() {
                            l.push(x)
                        }
                    }
                    _ => {}
                },
                3 => match self {
                    Tok::L(a, _) | Tok::M(a, _) => *a = param,
                    _ => {}
                },
                4 => {
                    if let Tok::L(_, l) = self {
                        if l.len() >= 2 {
                            l.swap(0, 1)
                        }
                    }
                }
                5 => {
                    if let Tok::N(n) = self {
                        *n = n.wrapping_add(param)
                    }
                }
                7 => {
                    if let Tok::L(_, l) = self {
                        if let Some(Tok::N(n)) = l.last().cloned() {
                            l.push(Tok::N(n.wrapping_add(1)))
                        }
                    }
                }
                8 => {
                    if let Tok::L(_, l) = self {
                        if l.len() >= 2 {
                            if let Tok::N(x) = l[0] {
                                l[1] = Tok::N(x.wrapping_add(1 << 32))
                            }
                        }
                    }
                }
                _ => *self = Tok::L(0, vec![]),
            }
            return;
        }
        *idx -= 1;
        match self {
            Tok::N(_) => {}
            Tok::L(_, l) => {
                for x in l.iter_mut() {
                    x.mutate(idx, kind, param);
                    if *idx < 0 {
                        return;
                    }
                }
            }
            Tok::M(_, l) => {
                for (k, v) in l.iter_mut() {
                    k.mutate(idx, kind, param);
                    if *idx < 0 {
                        return;
                    }
                    v.mutate(idx, kind, param);
                    if *idx < 0 {
                        return;
                    }
                }
            }
        }
    }
}

// ------------------------------------------------------------------------------------ serializer
pub struct TokSer;
pub struct SeqSer(u64, Vec<Tok>);
pub struct MapSer(u64, Vec<(Tok, Tok)>, Option<Tok>);

macro_rules! num {
    ($($f:ident $t:ty),*) => { $( fn $f(self, v: $t) -> Result<Tok, TErr> { Ok(Tok::N(v as u64)) } )* };
}
impl ser::Serializer for TokSer {
    type Ok = Tok;
    type Error = TErr;
    type SerializeSeq = SeqSer;
    type SerializeTuple = SeqSer;
    type SerializeTupleStruct = SeqSer;
    type SerializeTupleVariant = SeqSer;
    type SerializeMap = MapSer;
    type SerializeStruct = ser::Impossible<Tok, TErr>;
    type SerializeStructVariant = ser::Impossible<Tok, TErr>;
    num!(serialize_bool bool, serialize_u8 u8, serialize_u16 u16, serialize_u32 u32, serialize_u64 u64,
         serialize_i8 i8, serialize_i16 i16, serialize_i32 i32, serialize_i64 i64);
    fn serialize_f32(self, _: f32) -> Result<Tok, TErr> {
        Err(TErr("float".into()))
    }
    fn serialize_f64(self, _: f64) -> Result<Tok, TErr> {
        Err(TErr("float".into()))
    }
    fn serialize_char(self, v: char) -> Result<Tok, TErr> {
        Ok(Tok::N(v as u64))
    }
    fn serialize_str(self, _: &str) -> Result<Tok, TErr> {
        Err(TErr("str".into()))
    }
    fn serialize_bytes(self, _: &[u8]) -> Result<Tok, TErr> {
        Err(TErr("bytes".into()))
    }
    fn serialize_none(self) -> Result<Tok, TErr> {
        Ok(Tok::L(0, vec![]))
    }
    fn serialize_some<T: ?Sized + Serialize>(self, v: &T) -> Result<Tok, TErr> {
        v.serialize(self)
    }
    fn serialize_unit(self) -> Result<Tok, TErr> {
        Ok(Tok::L(0, vec![]))
    }
    fn serialize_unit_struct(self, _: &'static str) -> Result<Tok, TErr> {
        Ok(Tok::L(0, vec![]))
    }
    fn serialize_unit_variant(self, _: &'static str, i: u32, _: &'static str) -> Result<Tok, TErr> {
        Ok(Tok::N(i as u64))
    }
    fn serialize_newtype_struct<T: ?Sized + Serialize>(self, _: &'static str, v: &T) -> Result<Tok, TErr> {
        v.serialize(self)
    }
    fn serialize_newtype_variant<T: ?Sized + Serialize>(self, _: &'static str, _: u32, _: &'static str, v: &T) -> Result<Tok, TErr> {
        v.serialize(self)
    }
    fn serialize_seq(self, len: Option<usize>) -> Result<SeqSer, TErr> {
        Ok(SeqSer(len.map_or(u64::MAX, |x| x as u64), vec![]))
    }
    fn serialize_tuple(self, len: usize) -> Result<SeqSer, TErr> {
        Ok(SeqSer(len as u64, vec![]))
    }
    fn serialize_tuple_struct(self, _: &'static str, len: usize) -> Result<SeqSer, TErr> {
        Ok(SeqSer(len as u64, vec![]))
    }
    fn serialize_tuple_variant(self, _: &'static str, _: u32, _: &'static str, len: usize) -> Result<SeqSer, TErr> {
        Ok(SeqSer(len as u64, vec![]))
    }
    fn serialize_map(self, len: Option<usize>) -> Result<MapSer, TErr> {
        Ok(MapSer(len.map_or(u64::MAX, |x| x as u64), vec![], None))
    }
    fn serialize_struct(self, _: &'static str, _: usize) -> Result<Self::SerializeStruct, TErr> {
        Err(TErr("struct".into()))
    }
    fn serialize_struct_variant(self, _: &'static str, _: u32, _: &'static str, _: usize) -> Result<Self::SerializeStructVariant, TErr> {
        Err(TErr("struct variant".into()))
    }
}
impl ser::SerializeSeq for SeqSer {
    type Ok = Tok;
    type Error = TErr;
    fn serialize_element<T: ?Sized + Serialize>(&mut self, v: &T) -> Result<(), TErr> {
        self.1.push(v.serialize(TokSer)?);
        Ok(())
    }
    fn end(self) -> Result<Tok, TErr> {
        Ok(Tok::L(self.0, self.1))
    }
}
impl ser::SerializeTuple for SeqSer {
    type Ok = Tok;
    type Error = TErr;
    fn serialize_element<T: ?Sized + Serialize>(&mut self, v: &T) -> Result<(), TErr> {
        ser::SerializeSeq::serialize_element(self, v)
    }
    fn end(self) -> Result<Tok, TErr> {
        ser::SerializeSeq::end(self)
    }
}
impl ser::SerializeTupleStruct for SeqSer {
    type Ok = Tok;
    type Error = TErr;
    fn serialize_field<T: ?Sized + Serialize>(&mut self, v: &T) -> Result<(), TErr> {
        ser::SerializeSeq::serialize_element(self, v)
    }
    fn end(self) -> Result<Tok, TErr> {
        ser::SerializeSeq::end(self)
    }
}
impl ser::SerializeTupleVariant for SeqSer {
    type Ok = Tok;
    type Error = TErr;
    fn serialize_field<T: ?Sized + Serialize>(&mut self, v: &T) -> Result<(), TErr> {
        ser::SerializeSeq::serialize_element(self, v)
    }
    fn end(self) -> Result<Tok, TErr> {
        ser::SerializeSeq::end(self)
    }
}
impl ser::SerializeMap for MapSer {
    type Ok = Tok;
    type Error = TErr;
    fn serialize_key<T: ?Sized + Serialize>(&mut self, k: &T) -> Result<(), TErr> {
        self.2 = Some(k.serialize(TokSer)?);
        Ok(())
    }
    fn serialize_value<T: ?Sized + Serialize>(&mut self, v: &T) -> Result<(), TErr> {
        let k = self.2.take().ok_or_else(|| TErr("value without key".into()))?;
        self.1.push((k, v.serialize(TokSer)?));
        Ok(())
    }
    fn end(self) -> Result<Tok, TErr> {
        Ok(Tok::M(self.0, self.1))
    }
}

// ---------------------------------------------------------------------------------- deserializer
/// reader 0: self-describing; reader 1: length-driven
pub struct TokDe<'a>(pub &'a Tok, pub u64);

struct SeqAcc<'a> {
    items: std::slice::Iter<'a, Tok>,
    reader: u64,
    /// length-driven: how many elements the caller / the prefix still allows
    budget: Option<u64>,
}
impl<'de, 'a> SeqAccess<'de> for SeqAcc<'a> {
    type Error = TErr;
    fn next_element_seed<T: DeserializeSeed<'de>>(&mut self, seed: T) -> Result<Option<T::Value>, TErr> {
        if let Some(b) = self.budget {
            if b == 0 {
                return Ok(None);
            }
            self.budget = Some(b - 1);
            return match self.items.next() {
                Some(t) => seed.deserialize(TokDe(t, self.reader)).map(Some),
                None => Err(TErr("unexpected end of input".into())),
            };
        }
        match self.items.next() {
            Some(t) => seed.deserialize(TokDe(t, self.reader)).map(Some),
            None => Ok(None),
        }
    }
}
struct MapAcc<'a> {
    items: std::slice::Iter<'a, (Tok, Tok)>,
    reader: u64,
    budget: Option<u64>,
    cur: Option<&'a Tok>,
}
impl<'de, 'a> MapAccess<'de> for MapAcc<'a> {
    type Error = TErr;
    fn next_key_seed<K: DeserializeSeed<'de>>(&mut self, seed: K) -> Result<Option<K::Value>, TErr> {
        if let Some(b) = self.budget {
            if b == 0 {
                return Ok(None);
            }
            self.budget = Some(b - 1);
            return match self.items.next() {
                Some((k, v)) => {
                    self.cur = Some(v);
                    seed.deserialize(TokDe(k, self.reader)).map(Some)
                }
                None => Err(TErr("unexpected end of input".into())),
            };
        }
        match self.items.next() {
            Some((k, v)) => {
                self.cur = Some(v);
                seed.deserialize(TokDe(k, self.reader)).map(Some)
            }
            None => Ok(None),
        }
    }
    fn next_value_seed<V: DeserializeSeed<'de>>(&mut self, seed: V) -> Result<V::Value, TErr> {
        match self.cur.take() {
            Some(v) => seed.deserialize(TokDe(v, self.reader)),
            None => Err(TErr("value without key".into())),
        }
    }
}

impl<'a> TokDe<'a> {
    fn seq<'de, V: Visitor<'de>>(self, asked: Option<u64>, visitor: V) -> Result<V::Value, TErr> {
        match self.0 {
            Tok::L(ann, l) => {
                let budget = if self.1 == 0 { None } else { Some(asked.unwrap_or(*ann)) };
                let mut acc = SeqAcc { items: l.iter(), reader: self.1, budget };
                let v = visitor.visit_seq(&mut acc)?;
                if self.1 == 0 && acc.items.next().is_some() {
                    return Err(TErr("trailing elements".into()));
                }
                Ok(v)
            }
            _ => Err(TErr("expected a sequence".into())),
        }
    }
    fn num(&self, max: u64) -> Result<u64, TErr> {
        match self.0 {
            Tok::N(n) if *n <= max => Ok(*n),
            Tok::N(_) => Err(TErr("number out of range".into())),
            _ => Err(TErr("expected a number".into())),
        }
    }
}

macro_rules! de_num {
    ($($f:ident $v:ident $t:ty, $max:expr);*) => { $(
        fn $f<V: Visitor<'de>>(self, visitor: V) -> Result<V::Value, TErr> { visitor.$v(self.num($max)? as $t) }
    )* };
}
impl<'de, 'a> de::Deserializer<'de> for TokDe<'a> {
    type Error = TErr;
    fn deserialize_any<V: Visitor<'de>>(self, visitor: V) -> Result<V::Value, TErr> {
        match self.0 {
            Tok::N(n) => visitor.visit_u64(*n),
            Tok::L(..) => self.seq(None, visitor),
            Tok::M(..) => self.deserialize_map(visitor),
        }
    }
    de_num!(deserialize_u8 visit_u8 u8, u8::MAX as u64; deserialize_u16 visit_u16 u16, u16::MAX as u64;
            deserialize_u32 visit_u32 u32, u32::MAX as u64; deserialize_u64 visit_u64 u64, u64::MAX);
    fn deserialize_seq<V: Visitor<'de>>(self, visitor: V) -> Result<V::Value, TErr> {
        self.seq(None, visitor)
    }
    fn deserialize_tuple<V: Visitor<'de>>(self, len: usize, visitor: V) -> Result<V::Value, TErr> {
        self.seq(Some(len as u64), visitor)
    }
    fn deserialize_tuple_struct<V: Visitor<'de>>(self, _: &'static str, len: usize, visitor: V) -> Result<V::Value, TErr> {
        self.seq(Some(len as u64), visitor)
    }
    fn deserialize_map<V: Visitor<'de>>(self, visitor: V) -> Result<V::Value, TErr> {
        match self.0 {
            Tok::M(ann, l) => {
                let budget = if self.1 == 0 { None } else { Some(*ann) };
                let mut acc = MapAcc { items: l.iter(), reader: self.1, budget, cur: None };
                let v = visitor.visit_map(&mut acc)?;
                if self.1 == 0 && acc.items.next().is_some() {
                    return Err(TErr("trailing entries".into()));
                }
                Ok(v)
            }
            _ => Err(TErr("expected a map".into())),
        }
    }
    fn deserialize_newtype_struct<V: Visitor<'de>>(self, _: &'static str, visitor: V) -> Result<V::Value, TErr> {
        visitor.visit_newtype_struct(self)
    }
    serde::forward_to_deserialize_any! {
        bool i8 i16 i32 i64 i128 u128 f32 f64 char str string bytes byte_buf option unit unit_struct
        struct enum identifier ignored_any
    }
}
