//! Container opcodes 50..86 of the script interpreter (protocol: coq/Model/WorldRun.v exec_cont):
//! EntityBuilder, EntityBuilderClone / BuiltEntityClone, ColumnBatchBuilder, CommandBuffer.
use crate::comps::*;
use crate::gen_tuples::*;
use crate::world_engine::*;
use crate::{with_comp, Out};
use hecs::*;
use std::any::TypeId;
use std::panic::{catch_unwind, AssertUnwindSafe};

/// dropped only by a builder's clear: the destructor unwinds
#[derive(Clone)]
struct Bomb;
impl Drop for Bomb {
    fn drop(&mut self) {
        std::panic::panic_any(77u64);
    }
}

#[derive(Clone, PartialEq, Debug)]
struct Sa(u32);
#[derive(Clone, PartialEq, Debug)]
struct Sb(u64);

/// Component types that are themselves bundle types (a tuple, the unit type), in a world of their own: a bundle `B`
/// given to the world directly and a lone component of type `B` recorded in a command buffer are different things,
/// whichever comes first. `sel` picks the type and the order.
fn bundle_typed_component(sel: u64, out: &mut Out) {
    fn go<B: Bundle + DynamicBundle + Component + Clone + PartialEq + 'static>(b: B, ntypes: usize, replay_first: bool, out: &mut Out) {
        let r = catch_unwind(AssertUnwindSafe(|| {
            let mut side = World::new();
            let x = side.spawn((Sb(1),));
            let y = side.spawn((Sb(2),));
            let mut cmd = CommandBuffer::new();
            cmd.insert_one(y, b.clone());
            if replay_first {
                cmd.run_on(&mut side);
                side.insert(x, b.clone()).unwrap();
            } else {
                side.insert(x, b.clone()).unwrap();
                cmd.run_on(&mut side);
            }
            let nx = side.entity(x).unwrap().component_types().count();
            let ny = side.entity(y).unwrap().component_types().count();
            let held = match side.get::<&B>(y) {
                Ok(v) => *v == b,
                Err(_) => false,
            };
            let xs = match side.get::<&Sb>(x) {
                Ok(v) => v.0,
                Err(_) => 0,
            };
            let ys = match side.get::<&Sb>(y) {
                Ok(v) => v.0,
                Err(_) => 0,
            };
            let xb = side.get::<&B>(x).is_ok();
            (nx, ny, held, xs, ys, xb)
        }));
        match r {
            Ok((nx, ny, held, xs, ys, xb)) => {
                let want_nx = 1 + ntypes;
                if nx != want_nx || ny != 2 || !held || xb || xs != 1 || ys != 2 {
                    out.flag(format!(
                        "C11: a buffered insert_one of a component of type {} and a direct insert of that bundle got mixed up: {:?}",
                        std::any::type_name::<B>(),
                        (nx, ny, held, xs, ys, xb)
                    ));
                }
            }
            Err(_) => out.flag(format!("C11: replaying insert_one of a component of type {} panicked", std::any::type_name::<B>())),
        }
    }
    let replay_first = sel % 2 == 1;
    match (sel / 2) % 3 {
        0 => go((), 0, replay_first, out),
        1 => go((Sa(5),), 1, replay_first, out),
        _ => go((Sa(6), 7u8), 2, replay_first, out),
    }
}

fn type_index(id: TypeId) -> u64 {
    let ids = [
        TypeId::of::<C0>(),
        TypeId::of::<C1>(),
        TypeId::of::<C2>(),
        TypeId::of::<C3>(),
        TypeId::of::<C4>(),
        TypeId::of::<C5>(),
        TypeId::of::<C6>(),
        TypeId::of::<C7>(),
    ];
    ids.iter().position(|x| *x == id).map_or(99, |p| p as u64)
}

macro_rules! builder_probe {
    ($b:expr, $sizes:expr, $out:expr, $obs:expr) => {{
        let mut spans: Vec<(usize, usize, u64)> = Vec::new();
        for t in 0..NTYPES as u64 {
            with_comp!(t, C, {
                let has = $b.has::<C>();
                $obs.push(has as u64);
                match $b.get::<&C>() {
                    Some(c) => {
                        $obs.push(1);
                        $obs.push(if $sizes[t as usize] == 0 { 0 } else { c.val() });
                        let addr = std::hint::black_box(c as *const C as usize);
                        if addr % std::mem::align_of::<C>() != 0 {
                            $out.flag(format!("C04: builder handed out a misaligned reference to type {t}: {addr:#x}"));
                        }
                        let size = std::mem::size_of::<C>();
                        if size > 0 {
                            if crate::alloc_track::block_of(addr, size).is_none() {
                                $out.flag(format!("C04: builder reference to type {t} does not lie inside one live allocation"));
                            }
                            for (a2, s2, t2) in &spans {
                                if addr < a2 + s2 && *a2 < addr + size {
                                    $out.flag(format!("C04: builder components of types {t2} and {t} overlap in the arena"));
                                }
                            }
                            spans.push((addr, size, t));
                        }
                        if !has {
                            $out.flag(format!("C13: builder get::<{t}> succeeds but has::<{t}> is false"));
                        }
                    }
                    None => {
                        $obs.push(0);
                        if has {
                            $out.flag(format!("C13: builder has::<{t}> but get fails"));
                        }
                    }
                }
            });
        }
        let ts: Vec<u64> = $b.component_types().map(type_index).collect();
        $obs.push(ts.len() as u64);
        $obs.extend(ts);
    }};
}

struct CmdSpawnV<'a>(&'a mut CommandBuffer, &'a [u64]);
impl TupleVisitor for CmdSpawnV<'_> {
    type Out = ();
    fn visit<B: TupleB>(self) {
        self.0.spawn(B::from_vals(self.1))
    }
}
struct CmdInsertV<'a>(&'a mut CommandBuffer, Entity, &'a [u64]);
impl TupleVisitor for CmdInsertV<'_> {
    type Out = ();
    fn visit<B: TupleB>(self) {
        self.0.insert(self.1, B::from_vals(self.2))
    }
}
struct CmdRemoveV<'a>(&'a mut CommandBuffer, Entity);
impl TupleVisitor for CmdRemoveV<'_> {
    type Out = ();
    fn visit<B: TupleB>(self) {
        self.0.remove::<B>(self.1)
    }
}

impl Engine {
    fn emit_c(&mut self, obs: &mut Vec<u64>, code: u64, ret: &[u64], out: &mut Out) {
        self.emit_pub(obs, code, ret, out);
    }

    pub fn cont_op(&mut self, opc: u64, r: &mut Rd, out: &mut Out) -> Vec<u64> {
        let mut obs = Vec::new();
        let sizes = self.sizes.clone();
        match opc {
            50 | 60 => {
                let (s, t, v) = (r.next() as usize, r.next(), r.next());
                self.ledger.give(&[(t, v)], &sizes, out);
                with_comp!(t, C, {
                    if opc == 50 {
                        self.eb[s].add(C::new(v));
                    } else {
                        self.ebc[s].add(C::new(v));
                    }
                });
                self.emit_c(&mut obs, 0, &[], out);
            }
            52 | 61 => {
                let s = r.next() as usize;
                // the clear is made to unwind: a last component whose destructor panics is added first (a zero-sized
                // type of alignment 1: no arena growth). It sits at the end of the slot list, so every other value
                // has been dropped when it goes off, and the builder must be left as empty as after a quiet clear.
                let r = if opc == 52 {
                    self.eb[s].add(Bomb);
                    let b = &mut self.eb[s];
                    catch_unwind(AssertUnwindSafe(|| b.clear()))
                } else {
                    self.ebc[s].add(Bomb);
                    let b = &mut self.ebc[s];
                    catch_unwind(AssertUnwindSafe(|| b.clear()))
                };
                if r.is_ok() {
                    out.flag("C03: clearing a builder did not drop its last component".to_string());
                }
                self.emit_c(&mut obs, 0, &[], out);
            }
            53 => {
                let (s, w) = (r.next() as usize, r.next() as usize);
                if !self.live_pub(w) {
                    self.handles.push(nohandle());
                    return vec![8];
                }
                let items = self.builder_items(s);
                self.shadow[w].materialise_pub();
                let world = self.worlds[w].as_mut().unwrap();
                let eb = &mut self.eb[s];
                match catch_unwind(AssertUnwindSafe(|| world.spawn(eb.build()))) {
                    Ok(h) => {
                        self.shadow[w].ents.insert(h.to_bits().into(), items.into_iter().collect());
                        self.issue_pub(w, h, out);
                        self.emit_c(&mut obs, 0, &[h.to_bits().into()], out);
                    }
                    Err(e) => {
                        self.poisoned[w] = true;
                        self.handles.push(nohandle());
                        self.emit_c(&mut obs, 9, &[panic_class(&e).0], out);
                    }
                }
            }
            54 => {
                let (s, w) = (r.next() as usize, r.next() as usize);
                let h = self.href(r);
                if !self.live_pub(w) {
                    return vec![8];
                }
                let items = self.builder_items(s);
                self.shadow[w].materialise_pub();
                let world = self.worlds[w].as_mut().unwrap();
                let eb = &mut self.eb[s];
                match catch_unwind(AssertUnwindSafe(|| world.insert(h, eb.build()))) {
                    Ok(Ok(())) => {
                        match self.shadow[w].ents.get_mut(&h.to_bits().into()) {
                            Some(m) => m.extend(items),
                            None => out.flag(format!("C09: insert on {:?} succeeded but the entity does not exist", h)),
                        }
                        self.emit_c(&mut obs, 0, &[], out);
                    }
                    Ok(Err(_)) => self.emit_c(&mut obs, 1, &[], out),
                    Err(e) => {
                        self.poisoned[w] = true;
                        self.emit_c(&mut obs, 9, &[panic_class(&e).0], out);
                    }
                }
            }
            55 => {
                let s = r.next() as usize;
                let b = &self.eb[s];
                builder_probe!(b, sizes, out, obs);
            }
            66 => {
                let s = r.next() as usize;
                let b = &self.ebc[s];
                builder_probe!(b, sizes, out, obs);
            }
            56 => {
                let s = r.next() as usize;
                drop(self.eb[s].build());
                self.emit_c(&mut obs, 0, &[], out);
            }
            57 => {
                let s = r.next() as usize;
                self.eb[s] = EntityBuilder::new();
                self.emit_c(&mut obs, 0, &[], out);
            }
            62 => {
                let (s, s2) = (r.next() as usize, r.next() as usize);
                let cl = self.ebc[s].clone();
                self.ebc[s2] = cl;
                self.emit_c(&mut obs, 0, &[], out);
            }
            63 => {
                let (s, ks) = (r.next() as usize, r.next() as usize);
                let b = std::mem::replace(&mut self.ebc[s], EntityBuilderClone::new());
                self.built[ks] = Some(b.build());
                self.emit_c(&mut obs, 0, &[], out);
            }
            64 => {
                let (ks, w) = (r.next() as usize, r.next() as usize);
                if !self.live_pub(w) || self.built[ks].is_none() {
                    self.handles.push(nohandle());
                    return vec![8];
                }
                self.shadow[w].materialise_pub();
                let world = self.worlds[w].as_mut().unwrap();
                let built = self.built[ks].as_ref().unwrap();
                // the bundle answers has::<T>() for exactly the types it lists (and then spawns)
                let listed: Vec<TypeId> = DynamicBundle::with_ids(&built, |ids| ids.to_vec());
                for t in 0..NTYPES as u64 {
                    with_comp!(t, C, {
                        let has = DynamicBundle::has::<C>(&built);
                        if has != listed.contains(&TypeId::of::<C>()) {
                            out.flag(format!("C13: a built clone-bundle says has::<{t}>() = {has} but its type list says otherwise"));
                        }
                    });
                }
                match catch_unwind(AssertUnwindSafe(|| world.spawn(built))) {
                    Ok(h) => {
                        // the spawned entity holds the clones just made, in order
                        let c = drain_clones();
                        self.ledger.give(&c, &sizes, out);
                        let z = self.zvals_pub(&c);
                        self.shadow[w].ents.insert(h.to_bits().into(), z.into_iter().collect());
                        self.issue_pub(w, h, out);
                        self.emit_c(&mut obs, 0, &[h.to_bits().into()], out);
                    }
                    Err(e) => {
                        self.poisoned[w] = true;
                        self.handles.push(nohandle());
                        self.emit_c(&mut obs, 9, &[panic_class(&e).0], out);
                    }
                }
            }
            65 => {
                let (ks, s) = (r.next() as usize, r.next() as usize);
                match self.built[ks].take() {
                    None => return vec![8],
                    Some(b) => {
                        self.ebc[s] = EntityBuilderClone::from(b);
                        self.emit_c(&mut obs, 0, &[], out);
                    }
                }
            }
            67 => {
                let (ks, ks2) = (r.next() as usize, r.next() as usize);
                match self.built[ks].clone() {
                    None => return vec![8],
                    Some(b) => {
                        self.built[ks2] = Some(b);
                        self.emit_c(&mut obs, 0, &[], out);
                    }
                }
            }
            68 => {
                let ks = r.next() as usize;
                self.built[ks] = None;
                self.emit_c(&mut obs, 0, &[], out);
            }
            70 => {
                let s = r.next() as usize;
                let k = r.next() as usize;
                let ts = r.take(k);
                let n = r.next() as u32;
                let mut ty = ColumnBatchType::new();
                for &t in &ts {
                    with_comp!(t, C, {
                        ty.add::<C>();
                    });
                }
                self.batch[s] = Some((ty.into_batch(n), n));
                self.emit_c(&mut obs, 0, &[], out);
            }
            71 => {
                let (s, t, m) = (r.next() as usize, r.next(), r.next() as usize);
                let vs = r.take(m);
                match self.batch[s].as_mut() {
                    None => return vec![8],
                    Some((b, size)) => {
                        let size = *size as u32;
                        let mut rejected = 0u64;
                        let mut none = false;
                        with_comp!(t, C, {
                            match b.writer::<C>() {
                                None => none = true,
                                Some(mut w) => {
                                    for &v in &vs {
                                        self.ledger.give(&[(t, v)], &sizes, out);
                                        let before = w.fill();
                                        let res = w.push(C::new(v));
                                        // a column never takes more values than the batch has rows, and fill() counts them
                                        if res.is_ok() && (before >= size || w.fill() != before + 1) {
                                            out.flag(format!("C12: a writer accepted a value for column {t} although {before} of {size} rows were already written (fill now {})", w.fill()));
                                        }
                                        if res.is_err() && before < size {
                                            out.flag(format!("C12: a writer refused a value for column {t} although only {before} of {size} rows were written"));
                                        }
                                        if let Err(x) = res {
                                            // handed back to the caller
                                            let n = drops_len();
                                            let back = [(t, if sizes[t as usize] == 0 { 0 } else { x.val() })];
                                            drop(x);
                                            truncate_drops(n);
                                            self.ledger.returned(&[(t, if sizes[t as usize] == 0 { 0 } else { v })], &sizes, out);
                                            if back[0].1 != (if sizes[t as usize] == 0 { 0 } else { v }) {
                                                out.flag(format!("C12: push handed back a different value {:?}", back));
                                            }
                                            rejected += 1;
                                        }
                                    }
                                }
                            }
                        });
                        if none {
                            return vec![6];
                        }
                        self.emit_c(&mut obs, 0, &[rejected], out);
                    }
                }
            }
            72 => {
                let (s, w) = (r.next() as usize, r.next() as usize);
                if !self.live_pub(w) || self.batch[s].is_none() {
                    return vec![8];
                }
                let (b, n) = self.batch[s].take().unwrap();
                match b.build() {
                    Err(_) => {
                        for _ in 0..n {
                            self.handles.push(nohandle());
                        }
                        self.emit_c(&mut obs, 4, &[], out);
                    }
                    Ok(batch) => {
                        self.shadow[w].materialise_pub();
                        let world = self.worlds[w].as_mut().unwrap();
                        match catch_unwind(AssertUnwindSafe(|| world.spawn_column_batch(batch).collect::<Vec<_>>())) {
                            Ok(hs) => {
                                if hs.len() != n as usize {
                                    out.flag(format!("C12: batch of {n} rows spawned {} entities", hs.len()));
                                }
                                // shadow: read back what each new entity holds (the batch oracle below checks it)
                                for h in &hs {
                                    let items = self.read_entity(w, *h);
                                    self.shadow[w].ents.insert(h.to_bits().into(), items.into_iter().collect());
                                    self.issue_pub(w, *h, out);
                                }
                                let bits: Vec<u64> = hs.iter().map(|h| h.to_bits().into()).collect();
                                self.emit_c(&mut obs, 0, &bits, out);
                            }
                            Err(e) => {
                                self.poisoned[w] = true;
                                for _ in 0..n {
                                    self.handles.push(nohandle());
                                }
                                self.emit_c(&mut obs, 9, &[panic_class(&e).0], out);
                            }
                        }
                    }
                }
            }
            74 => {
                let s = r.next() as usize;
                self.batch[s] = None;
                self.emit_c(&mut obs, 0, &[], out);
            }
            80 | 81 => {
                let cb = r.next() as usize;
                let h = if opc == 81 { Some(self.href(r)) } else { None };
                let b = dec_bundle(r);
                self.ledger.give(&b.items, &sizes, out);
                bundle_typed_component(b.items.len() as u64 * 2 + (opc - 80) + cb as u64 * 2, out);
                {
                    let mut ts: Vec<u64> = b.items.iter().map(|x| x.0).collect();
                    ts.sort();
                    if ts.windows(2).any(|p| p[0] == p[1]) {
                        self.cmd_invalid[cb] = true;
                    }
                }
                let buf = &mut self.cmd[cb];
                if opc == 81 && b.kind == 0 && b.items.len() == 1 && b.items[0].1 % 2 == 0 {
                    // a lone component goes through insert_one (a separate entry point of the buffer)
                    let (t, v) = b.items[0];
                    with_comp!(t, C, {
                        buf.insert_one(h.unwrap(), C::new(v));
                    });
                } else if b.kind == 0 || b.kind >= 10 {
                    let types: Vec<u64> = b.items.iter().map(|x| x.0).collect();
                    let vals: Vec<u64> = b.items.iter().map(|x| x.1).collect();
                    match h {
                        None => crate::derived::dispatch_bundle(b.kind, &types, CmdSpawnV(buf, &vals)).expect("tuple type not in catalogue"),
                        Some(h) => crate::derived::dispatch_bundle(b.kind, &types, CmdInsertV(buf, h, &vals)).expect("tuple type not in catalogue"),
                    }
                } else {
                    let mut eb = builder_from(&b.items);
                    match h {
                        None => buf.spawn(eb.build()),
                        Some(h) => buf.insert(h, eb.build()),
                    }
                }
                if h.is_none() {
                    self.cmd_spawns[cb] += 1;
                }
                self.cmd_counts[cb] += 1;
                self.emit_c(&mut obs, 0, &[], out);
            }
            82 => {
                let cb = r.next() as usize;
                let h = self.href(r);
                let k = r.next() as usize;
                let ts = r.take(k);
                {
                    let mut st = ts.clone();
                    st.sort();
                    if st.windows(2).any(|p| p[0] == p[1]) {
                        self.cmd_invalid[cb] = true;
                    }
                }
                if ts.len() == 1 && ts[0] % 2 == 0 {
                    let buf = &mut self.cmd[cb];
                    with_comp!(ts[0], C, {
                        buf.remove_one::<C>(h);
                    });
                } else {
                    dispatch_tuple(&ts, CmdRemoveV(&mut self.cmd[cb], h)).expect("tuple type not in catalogue");
                }
                self.cmd_counts[cb] += 1;
                self.emit_c(&mut obs, 0, &[], out);
            }
            83 => {
                let cb = r.next() as usize;
                let h = self.href(r);
                self.cmd[cb].despawn(h);
                self.cmd_counts[cb] += 1;
                self.emit_c(&mut obs, 0, &[], out);
            }
            84 => {
                let (cb, w) = (r.next() as usize, r.next() as usize);
                if !self.live_pub(w) {
                    return vec![8];
                }
                // after a replay that panicked the rest of its commands is still in the buffer: cmd_invalid stays set, and
                // the oracles below keep quiet (the handle bookkeeping is unchanged: spawns recorded since are counted)
                let spawns_known = !self.cmd_invalid[cb];
                let n = self.cmd_spawns[cb];
                self.cmd_spawns[cb] = 0;
                let ncmds = self.cmd_counts[cb];
                self.cmd_counts[cb] = 0;
                let mut before: std::collections::HashSet<u64> = self.worlds[w].as_ref().unwrap().iter().map(|e| e.entity().to_bits().into()).collect();
                // reservations that the run flushes into real entities were not spawned by it
                before.extend(self.shadow[w].reserved.iter().copied());
                let world = self.worlds[w].as_mut().unwrap();
                let buf = &mut self.cmd[cb];
                let res = catch_unwind(AssertUnwindSafe(|| buf.run_on(world)));
                // the shadow follows the world here; replay equivalence is judged against the model
                // and by the twin check in the generator (direct application of the same commands)
                let world = self.worlds[w].as_ref().unwrap();
                let mut spawned: Vec<u64> = world.iter().map(|e| -> u64 { e.entity().to_bits().into() }).filter(|b| !before.contains(b)).collect();
                spawned.sort();
                match res {
                    Ok(()) => {
                        self.cmd_invalid[cb] = false;
                        // (fewer is possible: a recorded despawn may name the handle a recorded spawn is going to get)
                        if spawns_known && spawned.len() > n {
                            out.flag(format!("C11: {n} spawns were recorded but the replay created {} entities", spawned.len()));
                        }
                        self.resync_shadow(w, ncmds > 0);
                        for b in &spawned {
                            let h = Entity::from_bits(*b).unwrap();
                            self.issue_pub(w, h, out);
                        }
                        for _ in spawned.len()..n {
                            self.handles.push(nohandle());
                        }
                        self.emit_c(&mut obs, 0, &spawned, out);
                    }
                    Err(e) => {
                        if spawns_known {
                            out.flag("C11: the replay panicked although every recorded bundle was valid (applying the same commands directly does not panic)".to_string());
                        }
                        self.poisoned[w] = true;
                        // the commands after the one that panicked stay in the buffer and run with the next run_on
                        // (possibly on the other world): the shadow of that world must be re-read then
                        self.cmd_counts[cb] = ncmds.max(1);
                        self.cmd_invalid[cb] = true;
                        for b in &spawned {
                            self.handles.push(Entity::from_bits(*b).unwrap());
                        }
                        for _ in spawned.len()..n {
                            self.handles.push(nohandle());
                        }
                        self.emit_c(&mut obs, 9, &[panic_class(&e).0], out);
                    }
                }
            }
            85 => {
                let cb = r.next() as usize;
                self.cmd[cb].clear();
                self.cmd_invalid[cb] = false;
                self.cmd_spawns[cb] = 0;
                self.cmd_counts[cb] = 0;
                self.emit_c(&mut obs, 0, &[], out);
            }
            86 => {
                let cb = r.next() as usize;
                self.cmd[cb] = CommandBuffer::new();
                self.cmd_invalid[cb] = false;
                self.cmd_spawns[cb] = 0;
                self.cmd_counts[cb] = 0;
                self.emit_c(&mut obs, 0, &[], out);
            }
            _ => {}
        }
        obs
    }

    fn builder_items(&self, s: usize) -> Vec<(u64, u64)> {
        let mut items = Vec::new();
        for t in 0..NTYPES as u64 {
            with_comp!(t, C, {
                if let Some(c) = self.eb[s].get::<&C>() {
                    items.push((t, if self.sizes[t as usize] == 0 { 0 } else { c.val() }));
                }
            });
        }
        items
    }

    fn read_entity(&self, w: usize, h: Entity) -> Vec<(u64, u64)> {
        let mut items = Vec::new();
        if let Ok(e) = self.worlds[w].as_ref().unwrap().entity(h) {
            for t in 0..NTYPES as u64 {
                with_comp!(t, C, {
                    if let Some(c) = e.get::<&C>() {
                        items.push((t, if self.sizes[t as usize] == 0 { 0 } else { c.val() }));
                    }
                });
            }
        }
        items
    }

    fn resync_shadow(&mut self, w: usize, flushed: bool) {
        let world = self.worlds[w].as_ref().unwrap();
        let mut ents = std::collections::BTreeMap::new();
        for e in world.iter() {
            ents.insert(e.entity().to_bits().into(), self.read_entity(w, e.entity()).into_iter().collect());
        }
        // an empty buffer does not flush: reservations that are still outstanding stay reserved
        if flushed {
            // every recorded command flushes the world first
            self.shadow[w].reserved.clear();
        } else {
            self.shadow[w].reserved.retain(|b| !ents.contains_key(b));
        }
        self.shadow[w].ents = ents;
    }
}
