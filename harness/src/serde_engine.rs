//! Opcode 90 of the script interpreter: serialise a world (row / column format, optionally only the
//! entities satisfying a query) through the strict token backend, optionally mutate the token tree,
//! deserialise it with a self-describing or a length-driven reader (protocol: coq/Model/WorldRun.v,
//! model: coq/Model/Serde.v).  Supporting oracles: serde_json and bincode round trips.
use crate::comps::*;
use crate::query_engine::{EncItem, QDesc, QVisitor};
use crate::tok::*;
use crate::world_engine::*;
use crate::Out;
use hecs::serialize::{column, row};
use bincode::Options;
use hecs::*;
use serde::de::{DeserializeSeed, MapAccess, SeqAccess};
use serde::ser::{SerializeMap, SerializeTuple};
use std::panic::{catch_unwind, AssertUnwindSafe};

/// the user's context: handles C1, C2, C3, identified by their type index
pub struct Ctx {
    ids: Vec<u32>,
}

impl row::SerializeContext for Ctx {
    fn component_count(&self, e: EntityRef<'_>) -> Option<usize> {
        Some(e.has::<C1>() as usize + e.has::<C2>() as usize + e.has::<C3>() as usize)
    }
    fn serialize_entity<S: SerializeMap>(&mut self, e: EntityRef<'_>, mut map: S) -> Result<S::Ok, S::Error> {
        row::try_serialize::<C1, _, _>(&e, &1u32, &mut map)?;
        row::try_serialize::<C2, _, _>(&e, &2u32, &mut map)?;
        row::try_serialize::<C3, _, _>(&e, &3u32, &mut map)?;
        map.end()
    }
}
impl row::DeserializeContext for Ctx {
    fn deserialize_entity<'de, M: MapAccess<'de>>(&mut self, mut map: M, entity: &mut EntityBuilder) -> Result<(), M::Error> {
        while let Some(key) = map.next_key::<u32>()? {
            match key {
                1 => {
                    entity.add::<C1>(map.next_value()?);
                }
                2 => {
                    entity.add::<C2>(map.next_value()?);
                }
                3 => {
                    entity.add::<C3>(map.next_value()?);
                }
                _ => return Err(serde::de::Error::custom("unknown component id")),
            }
        }
        Ok(())
    }
}
impl column::SerializeContext for Ctx {
    fn component_count(&self, a: &Archetype) -> usize {
        a.has::<C1>() as usize + a.has::<C2>() as usize + a.has::<C3>() as usize
    }
    fn serialize_component_ids<S: SerializeTuple>(&mut self, a: &Archetype, mut out: S) -> Result<S::Ok, S::Error> {
        column::try_serialize_id::<C1, _, _>(a, &1u32, &mut out)?;
        column::try_serialize_id::<C2, _, _>(a, &2u32, &mut out)?;
        column::try_serialize_id::<C3, _, _>(a, &3u32, &mut out)?;
        out.end()
    }
    fn serialize_components<S: SerializeTuple>(&mut self, a: &Archetype, mut out: S) -> Result<S::Ok, S::Error> {
        column::try_serialize::<C1, _>(a, &mut out)?;
        column::try_serialize::<C2, _>(a, &mut out)?;
        column::try_serialize::<C3, _>(a, &mut out)?;
        out.end()
    }
}
impl column::DeserializeContext for Ctx {
    fn deserialize_component_ids<'de, A: SeqAccess<'de>>(&mut self, mut seq: A) -> Result<ColumnBatchType, A::Error> {
        self.ids.clear();
        let mut batch = ColumnBatchType::new();
        while let Some(id) = seq.next_element::<u32>()? {
            match id {
                1 => {
                    batch.add::<C1>();
                }
                2 => {
                    batch.add::<C2>();
                }
                3 => {
                    batch.add::<C3>();
                }
                _ => return Err(serde::de::Error::custom("unknown component id")),
            }
            self.ids.push(id);
        }
        Ok(batch)
    }
    fn deserialize_components<'de, A: SeqAccess<'de>>(&mut self, n: u32, mut seq: A, batch: &mut ColumnBatchBuilder) -> Result<(), A::Error> {
        for id in self.ids.clone() {
            match id {
                1 => column::deserialize_column::<C1, _>(n, &mut seq, batch)?,
                2 => column::deserialize_column::<C2, _>(n, &mut seq, batch)?,
                _ => column::deserialize_column::<C3, _>(n, &mut seq, batch)?,
            }
        }
        Ok(())
    }
}

struct RowSer<'a, Q>(&'a World, std::marker::PhantomData<Q>);
impl<Q: Query> serde::Serialize for RowSer<'_, Q> {
    fn serialize<S: serde::Serializer>(&self, s: S) -> Result<S::Ok, S::Error> {
        row::serialize_satisfying::<Q, _, _>(self.0, &mut Ctx { ids: vec![] }, s)
    }
}
struct ColSer<'a, Q>(&'a World, std::marker::PhantomData<Q>);
impl<Q: Query> serde::Serialize for ColSer<'_, Q> {
    fn serialize<S: serde::Serializer>(&self, s: S) -> Result<S::Ok, S::Error> {
        column::serialize_satisfying::<Q, _, _>(self.0, &mut Ctx { ids: vec![] }, s)
    }
}
struct RowDe;
impl<'de> DeserializeSeed<'de> for RowDe {
    type Value = World;
    fn deserialize<D: serde::Deserializer<'de>>(self, d: D) -> Result<World, D::Error> {
        row::deserialize(&mut Ctx { ids: vec![] }, d)
    }
}
struct ColDe;
impl<'de> DeserializeSeed<'de> for ColDe {
    type Value = World;
    fn deserialize<D: serde::Deserializer<'de>>(self, d: D) -> Result<World, D::Error> {
        column::deserialize(&mut Ctx { ids: vec![] }, d)
    }
}

/// canonical content of a world restricted to the handled types: sorted (bits, [(t, v)])
fn dump(w: &World) -> Vec<(u64, Vec<(u64, u64)>)> {
    let mut v: Vec<(u64, Vec<(u64, u64)>)> = w
        .iter()
        .map(|e| {
            let mut items = Vec::new();
            if let Some(c) = e.get::<&C1>() {
                items.push((1, c.val()));
            }
            if let Some(c) = e.get::<&C2>() {
                items.push((2, c.val()));
            }
            if let Some(c) = e.get::<&C3>() {
                items.push((3, c.val()));
            }
            (e.entity().to_bits().into(), items)
        })
        .collect();
    v.sort();
    v
}

struct SerV<'a> {
    world: &'a World,
    fmt: u64,
    out: &'a mut Vec<String>,
}
impl QVisitor for SerV<'_> {
    /// (token tree, json text, bincode bytes, handles satisfying the query)
    type Out = (Option<Tok>, Option<String>, Option<Vec<u8>>, Vec<u64>);
    fn visit<Q: QDesc>(self) -> Self::Out
    where
        for<'a> Q::Item<'a>: EncItem,
    {
        let sat: Vec<u64> = self.world.iter().filter(|e| e.satisfies::<Q>()).map(|e| e.entity().to_bits().into()).collect();
        if self.fmt == 0 {
            let s = RowSer::<Q>(self.world, std::marker::PhantomData);
            let t = serde::Serialize::serialize(&s, TokSer);
            if let Err(e) = &t {
                self.out.push(format!("C14: token serializer rejected the row form: {e}"));
            }
            (t.ok(), serde_json::to_string(&s).ok(), bincode::serialize(&s).ok(), sat)
        } else {
            let s = ColSer::<Q>(self.world, std::marker::PhantomData);
            let t = serde::Serialize::serialize(&s, TokSer);
            if let Err(e) = &t {
                self.out.push(format!("C14: token serializer rejected the column form: {e}"));
            }
            (t.ok(), serde_json::to_string(&s).ok(), bincode::serialize(&s).ok(), sat)
        }
    }
}

impl Engine {
    pub fn serde_op(&mut self, r: &mut Rd, out: &mut Out) -> Vec<u64> {
        let (w, fmt, reader, qidx) = (r.next() as usize, r.next(), r.next(), r.next());
        let n = r.next() as usize;
        let _ast = r.take(n);
        let nmut = r.next() as usize;
        let muts: Vec<(u64, u64, u64)> = (0..nmut).map(|_| (r.next(), r.next(), r.next())).collect();
        if !self.live_pub(w) {
            return vec![8];
        }
        let mut obs = Vec::new();
        let mut flags = Vec::new();
        let world = self.worlds[w].as_ref().unwrap();
        let (tree, json, bin, sat) = crate::gen_queries::dispatch_query(qidx, SerV { world, fmt, out: &mut flags }).expect("query index");
        for f in flags {
            out.flag(f);
        }
        let mut tree = match tree {
            Some(t) => t,
            None => return vec![98],
        };
        obs.push(tree.lengths_ok() as u64);
        if !tree.lengths_ok() {
            out.flag("C14: an announced length differs from the number of elements written".to_string());
        }
        let mut enc = Vec::new();
        tree.encode(&mut enc);
        obs.push(enc.len() as u64);
        obs.extend(enc);
        // expected content of a faithful round trip: the satisfying entities, handled components only
        let expect: Vec<(u64, Vec<(u64, u64)>)> = dump(world).into_iter().filter(|(b, _)| sat.contains(b)).collect();
        // supporting: serde_json and bincode round trips of the unmodified form
        if let Some(j) = json {
            let res = catch_unwind(AssertUnwindSafe(|| {
                let mut d = serde_json::Deserializer::from_str(&j);
                if fmt == 0 { RowDe.deserialize(&mut d).map(|w| dump(&w)) } else { ColDe.deserialize(&mut d).map(|w| dump(&w)) }
            }));
            match res {
                Ok(Ok(d)) if d == expect => {}
                other => out.flag(format!("C14: serde_json round trip does not reproduce the world: {:?}", other.map(|x| x.map_err(|e| e.to_string())).map_err(|_| "panic"))),
            }
        } else {
            out.flag("C14: serde_json could not serialise the world".to_string());
        }
        if let Some(b) = bin {
            let res = catch_unwind(AssertUnwindSafe(|| {
                let mut d = bincode::Deserializer::from_slice(&b, bincode::options().with_fixint_encoding().allow_trailing_bytes());
                if fmt == 0 { RowDe.deserialize(&mut d).map(|w| dump(&w)) } else { ColDe.deserialize(&mut d).map(|w| dump(&w)) }
            }));
            match res {
                Ok(Ok(d)) if d == expect => {}
                other => out.flag(format!("C14: bincode round trip does not reproduce the world: {:?}", other.map(|x| x.map_err(|e| e.to_string())).map_err(|_| "panic"))),
            }
            // supporting for C15: byte-level truncations must fail cleanly
            for cut in [b.len() / 2, b.len().saturating_sub(1)] {
                if cut < b.len() {
                    let res = catch_unwind(AssertUnwindSafe(|| {
                        let mut d = bincode::Deserializer::from_slice(&b[..cut], bincode::options().with_fixint_encoding().allow_trailing_bytes());
                        if fmt == 0 { RowDe.deserialize(&mut d).map(|_| ()) } else { ColDe.deserialize(&mut d).map(|_| ()) }
                    }));
                    if res.is_err() {
                        out.flag(format!("C15: deserialising bincode input truncated to {cut} bytes panicked"));
                    }
                }
            }
        } else {
            out.flag("C14: bincode could not serialise the world".to_string());
        }
        drain_drops();
        take_decoded();
        for (idx, kind, param) in &muts {
            let mut i = *idx as i64;
            tree.mutate(&mut i, *kind, *param);
        }
        let res = catch_unwind(AssertUnwindSafe(|| {
            let d = TokDe(&tree, reader);
            if fmt == 0 { RowDe.deserialize(d) } else { ColDe.deserialize(d) }
        }));
        match res {
            Ok(Ok(mut w2)) => {
                obs.push(0);
                let d = dump(&w2);
                obs.push(d.len() as u64);
                for (b, items) in &d {
                    obs.push(*b);
                    obs.push(items.len() as u64);
                    for (t, v) in items {
                        obs.push(*t);
                        obs.push(*v);
                    }
                }
                if muts.is_empty() && d != expect {
                    out.flag(format!("C14: round trip through the token backend (reader {reader}) does not reproduce the world: got {:?}, expected {:?}", d, expect));
                }
                // C15: an accepted input must give a consistent world
                let n = w2.iter().count();
                if w2.len() as usize != n {
                    out.flag(format!("C15: deserialised world has len() = {} but iterates {n} entities", w2.len()));
                }
                let hs: Vec<Entity> = w2.iter().map(|e| e.entity()).collect();
                for h in &hs {
                    if !w2.contains(*h) || w2.entity(*h).is_err() {
                        out.flag(format!("C15: deserialised world iterates {:?} but does not contain it", h));
                    }
                }
                // ... and keep working: despawn everything, spawn again
                let again = catch_unwind(AssertUnwindSafe(|| {
                    for h in &hs {
                        w2.despawn(*h).unwrap();
                    }
                    let e = w2.spawn((C1::new(1),));
                    w2.len() == 1 && w2.contains(e)
                }));
                if !matches!(again, Ok(true)) {
                    out.flag("C15: the deserialised world's bookkeeping is inconsistent (despawn/spawn afterwards failed)".to_string());
                }
                drop(w2);
            }
            Ok(Err(_)) => obs.push(1),
            Err(e) => {
                obs.push(9);
                out.flag(format!("C15: deserialisation panicked: {}", panic_class(&e).1));
            }
        }
        // every component decoded from the input (plus the probe value) is dropped exactly once by now
        let decoded = take_decoded();
        let dropped = drain_drops().len() as u64;
        let extra = if obs.last() == Some(&1) || obs.contains(&9) { 0 } else { 0 };
        let _ = extra;
        let spawned_probe = if matches!(res_code(&obs), 0) { 1 } else { 0 };
        if dropped != decoded + spawned_probe {
            out.flag(format!("C15/C03: {decoded} components were decoded (+{spawned_probe} probe) but {dropped} were dropped"));
        }
        obs
    }
}

fn res_code(obs: &[u64]) -> u64 {
    // the result code follows the encoded tree: obs = [lengths_ok, n, tree.., code, ...]
    let n = obs[1] as usize;
    obs[2 + n]
}
