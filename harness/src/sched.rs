//! Engines 6 / 60: the real AtomicBorrow driven at the granularity of its individual atomic
//! operations by a cooperative scheduler (yield hook before every atomic op), and a real-thread
//! stress run with ghost counters.
use crate::Out;
use corosensei::{Coroutine, CoroutineResult, Yielder};
use hecs::verif::{set_yield_hook, AtomicBorrow};
use std::cell::{Cell, RefCell};
use std::rc::Rc;
use std::sync::atomic::{AtomicBool, AtomicU64, AtomicUsize, Ordering};

thread_local! {
    static YIELDER: Cell<*const Yielder<(), u32>> = Cell::new(std::ptr::null());
}

fn hook(site: u32) {
    YIELDER.with(|y| {
        let p = y.get();
        if !p.is_null() {
            unsafe { (*p).suspend(site) };
        }
    });
}

fn manual_yield() {
    hook(0);
}

#[derive(Default)]
struct ThreadState {
    held: Vec<u8>, // 0 = shared, 1 = unique
    log: Vec<u64>,
    panicked: bool,
    yielder: usize,
}

pub fn run_borrow(args: &[u64], out: &mut Out) {
    let k = args[0] as usize;
    let mut pos = 1;
    let mut progs: Vec<Vec<u64>> = Vec::new();
    for _ in 0..k {
        let n = args[pos] as usize;
        progs.push(args[pos + 1..pos + 1 + n].to_vec());
        pos += 1 + n;
    }
    let sched = &args[pos..];

    let ab: &'static AtomicBorrow = Box::leak(Box::new(AtomicBorrow::new()));
    let states: Vec<Rc<RefCell<ThreadState>>> = (0..k).map(|_| Rc::new(RefCell::new(ThreadState::default()))).collect();
    set_yield_hook(Some(hook));

    let mut cos: Vec<Coroutine<(), u32, ()>> = Vec::new();
    for i in 0..k {
        let prog = progs[i].clone();
        let st = states[i].clone();
        cos.push(Coroutine::new(move |yielder: &Yielder<(), u32>, ()| {
            st.borrow_mut().yielder = yielder as *const Yielder<(), u32> as usize;
            YIELDER.with(|y| y.set(yielder as *const _));
            for call in prog {
                let r = std::panic::catch_unwind(std::panic::AssertUnwindSafe(|| match call {
                    0 => {
                        let ok = ab.borrow();
                        let mut s = st.borrow_mut();
                        s.log.push(ok as u64);
                        if ok {
                            s.held.push(0);
                        }
                    }
                    1 => {
                        let ok = ab.borrow_mut();
                        let mut s = st.borrow_mut();
                        s.log.push(ok as u64);
                        if ok {
                            s.held.push(1);
                        }
                    }
                    _ => {
                        let g = st.borrow_mut().held.pop();
                        match g {
                            Some(0) => ab.release(),
                            Some(_) => ab.release_mut(),
                            None => manual_yield(),
                        }
                    }
                }));
                if r.is_err() {
                    st.borrow_mut().panicked = true;
                    return;
                }
            }
        }));
    }
    // park every thread at its first yield point (before its first atomic operation)
    let mut done = vec![false; k];
    let resume = |cos: &mut Vec<Coroutine<(), u32, ()>>, done: &mut Vec<bool>, i: usize| {
        if done[i] {
            return;
        }
        let yp = states[i].borrow().yielder;
        YIELDER.with(|y| y.set(yp as *const Yielder<(), u32>));
        match cos[i].resume(()) {
            CoroutineResult::Yield(_) => {}
            CoroutineResult::Return(()) => done[i] = true,
        }
        YIELDER.with(|y| y.set(std::ptr::null()));
    };
    for i in 0..k {
        resume(&mut cos, &mut done, i);
    }
    let mut panicked = false;
    for &t in sched {
        let t = t as usize;
        if !panicked && t < k {
            resume(&mut cos, &mut done, t);
            if states[t].borrow().panicked {
                panicked = true;
            }
        }
        out.push(ab.verif_raw() as u64);
    }
    set_yield_hook(None);
    out.push(panicked as u64);
    // oracle: ghost reader/writer sets derived from what the threads were granted
    let (mut w, mut r) = (0, 0);
    for s in &states {
        for g in &s.borrow().held {
            if *g == 1 {
                w += 1
            } else {
                r += 1
            }
        }
    }
    if w > 1 || (w == 1 && r > 0) {
        out.flag(format!("granted {w} unique and {r} shared borrows simultaneously"));
    }
    if panicked {
        out.flag("borrow protocol panicked on a well-formed program");
    }
    for s in &states {
        let s = s.borrow();
        out.push(s.log.len() as u64);
        out.nums.extend(s.log.iter());
    }
    // every thread releases what it still holds
    let all_done = done.iter().all(|d| *d);
    for s in &states {
        let held: Vec<u8> = s.borrow().held.clone();
        for g in held {
            let _ = std::panic::catch_unwind(|| if g == 0 { ab.release() } else { ab.release_mut() });
        }
    }
    let fin = ab.verif_raw() as u64;
    out.push(fin);
    if all_done && !panicked && fin != 0 {
        out.flag(format!("flag is {fin:#x} after every borrow was released"));
    }
    // suspended coroutines are unwound when dropped
    drop(cos);
}

/// Engine 60: args = threads, iterations per thread, seed. Real threads hammer one AtomicBorrow;
/// ghost counters detect an exclusivity violation. Output: [violations, final flag value];
/// the theorem c06_invariant/c06_quiescent predicts [0, 0] for every schedule.
pub fn stress_borrow(args: &[u64], out: &mut Out) {
    let threads = args[0] as usize;
    let iters = args[1];
    let seed = args[2];
    let ab = AtomicBorrow::new();
    let readers = AtomicUsize::new(0);
    let writer = AtomicBool::new(false);
    let violations = AtomicU64::new(0);
    std::thread::scope(|s| {
        for t in 0..threads {
            let (ab, readers, writer, violations) = (&ab, &readers, &writer, &violations);
            s.spawn(move || {
                let mut x = seed.wrapping_mul(0x9E3779B97F4A7C15).wrapping_add(t as u64 + 1);
                for _ in 0..iters {
                    x ^= x << 13;
                    x ^= x >> 7;
                    x ^= x << 17;
                    if x % 3 == 0 {
                        if ab.borrow_mut() {
                            if writer.swap(true, Ordering::SeqCst) || readers.load(Ordering::SeqCst) != 0 {
                                violations.fetch_add(1, Ordering::SeqCst);
                            }
                            std::hint::spin_loop();
                            writer.store(false, Ordering::SeqCst);
                            ab.release_mut();
                        }
                    } else if ab.borrow() {
                        readers.fetch_add(1, Ordering::SeqCst);
                        if writer.load(Ordering::SeqCst) {
                            violations.fetch_add(1, Ordering::SeqCst);
                        }
                        readers.fetch_sub(1, Ordering::SeqCst);
                        ab.release();
                    }
                }
            });
        }
    });
    let v = violations.load(Ordering::SeqCst);
    let fin = ab.verif_raw() as u64;
    out.push(v);
    out.push(fin);
    if v != 0 {
        out.flag(format!("{v} exclusivity violations under real threads"));
    }
    if fin != 0 {
        out.flag(format!("flag is {fin:#x} after all threads released"));
    }
}

// ------------------------------------------------------------------------------------------
// Engine 7 / 70: concurrent reservation on a shared &World (C07)

#[derive(Default)]
struct RState {
    out: Vec<Vec<u64>>, // observation of each completed call
    yielder: usize,
}

pub fn run_reserve(args: &[u64], out: &mut Out) {
    use hecs::{Entity, World};
    let (nfree, nlive, k) = (args[0] as usize, args[1] as usize, args[2] as usize);
    let mut pos = 3;
    let mut progs: Vec<Vec<(u64, u64)>> = Vec::new();
    for _ in 0..k {
        let n = args[pos] as usize;
        pos += 1;
        let mut p = Vec::new();
        for _ in 0..n {
            p.push((args[pos], args[pos + 1]));
            pos += 2;
        }
        progs.push(p);
    }
    let sched = &args[pos..];
    let mut world = World::new();
    // the ids on the free list belonged to entities WITH components (in two different archetypes), so a
    // stale location left behind by despawn would show after the flush
    let hs: Vec<Entity> = (0..nfree + nlive)
        .map(|i| if i % 2 == 0 { world.spawn((i as u32, i as u64)) } else { world.spawn((i as u8,)) })
        .collect();
    for h in &hs[..nfree] {
        world.despawn(*h).unwrap();
    }
    let live_before: Vec<Entity> = hs[nfree..].to_vec();
    let len_before = world.len();
    let wref: &World = &world;
    let states: Vec<Rc<RefCell<RState>>> = (0..k).map(|_| Rc::new(RefCell::new(RState::default()))).collect();
    let all: Rc<RefCell<Vec<Entity>>> = Rc::new(RefCell::new(Vec::new()));
    set_yield_hook(Some(hook));
    let mut obs: Vec<u64> = Vec::new();
    {
        // SAFETY: the coroutines only use `wref` while `world` is alive and not mutated; they are
        // dropped at the end of this block
        let wstatic: &'static World = unsafe { std::mem::transmute(wref) };
        let mut cos: Vec<Coroutine<(), u32, ()>> = Vec::new();
        for i in 0..k {
            let prog = progs[i].clone();
            let st = states[i].clone();
            let all = all.clone();
            cos.push(Coroutine::new(move |yielder: &Yielder<(), u32>, ()| {
                st.borrow_mut().yielder = yielder as *const Yielder<(), u32> as usize;
                YIELDER.with(|y| y.set(yielder as *const _));
                let mut last = Entity::DANGLING;
                for (op, arg) in prog {
                    let o = match op {
                        0 => {
                            let h = wstatic.reserve_entity();
                            last = h;
                            all.borrow_mut().push(h);
                            vec![1, h.to_bits().into()]
                        }
                        1 => {
                            let v: Vec<Entity> = crate::comps::drain_reserved(wstatic.reserve_entities(arg as u32), arg as usize);
                            if let Some(h) = v.last() {
                                last = *h;
                            }
                            all.borrow_mut().extend(v.iter().copied());
                            let mut o = vec![v.len() as u64];
                            o.extend(v.iter().map(|h| -> u64 { h.to_bits().into() }));
                            o
                        }
                        _ => vec![wstatic.contains(last) as u64],
                    };
                    st.borrow_mut().out.push(o);
                }
            }));
        }
        let mut done = vec![false; k];
        let mut consumed = vec![0usize; k];
        let mut resume = |cos: &mut Vec<Coroutine<(), u32, ()>>, done: &mut Vec<bool>, i: usize| {
            if done[i] {
                return;
            }
            let yp = states[i].borrow().yielder;
            YIELDER.with(|y| y.set(yp as *const Yielder<(), u32>));
            match cos[i].resume(()) {
                CoroutineResult::Yield(_) => {}
                CoroutineResult::Return(()) => done[i] = true,
            }
            YIELDER.with(|y| y.set(std::ptr::null()));
        };
        for i in 0..k {
            resume(&mut cos, &mut done, i);
        }
        for &t in sched {
            let t = t as usize;
            if t >= k {
                continue;
            }
            if done[t] && consumed[t] == states[t].borrow().out.len() {
                obs.push(0);
                continue;
            }
            resume(&mut cos, &mut done, t);
            let st = states[t].borrow();
            if consumed[t] < st.out.len() {
                let o = &st.out[consumed[t]];
                obs.push(o.len() as u64);
                obs.extend(o.iter());
                consumed[t] += 1;
            } else {
                obs.push(0);
            }
        }
        drop(cos);
    }
    set_yield_hook(None);
    out.nums.extend(obs);
    let all = all.borrow().clone();
    out.push(all.len() as u64);
    // oracle: distinct, distinct from live ones, contained
    let mut seen = std::collections::HashSet::new();
    for h in &all {
        let c = world.contains(*h);
        out.push(c as u64);
        if !c {
            out.flag(format!("C07: reserved handle {:?} does not report contains() before the flush", h));
        }
        if !seen.insert(*h) {
            out.flag(format!("C07: handle {:?} was handed out twice", h));
        }
        if live_before.iter().any(|l| l.id() == h.id()) {
            out.flag(format!("C07: reserved handle {:?} shares its id with a live entity", h));
        }
    }
    world.flush();
    out.push(world.len() as u64);
    if world.len() as usize != len_before as usize + all.len() {
        out.flag(format!("C07: len grew from {} to {} for {} reservations", len_before, world.len(), all.len()));
    }
    for h in all.iter().chain(live_before.iter()) {
        let ok = world.entity(*h).is_ok() && world.iter().any(|e| e.entity() == *h);
        out.push(ok as u64);
        if !ok {
            out.flag(format!("C07: {:?} is not a live entity after the flush", h));
        }
    }
    for h in all.iter() {
        if let Ok(e) = world.entity(*h) {
            if e.len() != 0 {
                out.flag(format!("C07: reserved entity {:?} has {} components after the flush (it must be empty)", h, e.len()));
            }
        }
    }
    for (i, h) in hs.iter().enumerate().skip(nfree) {
        let n = world.entity(*h).map(|e| e.len()).unwrap_or(99);
        if n != if i % 2 == 0 { 2 } else { 1 } {
            out.flag(format!("C07: previously live entity {:?} has {n} components after the reservations were flushed", h));
        }
    }
}

/// Engine 70: args = threads, reservations per thread, free-list size, seed. Real threads.
pub fn stress_reserve(args: &[u64], out: &mut Out) {
    use hecs::{Entity, World};
    let (threads, per, nfree) = (args[0] as usize, args[1] as usize, args[2] as usize);
    let mut world = World::new();
    let hs: Vec<Entity> = (0..nfree + 8).map(|_| world.spawn(())).collect();
    for h in &hs[..nfree] {
        world.despawn(*h).unwrap();
    }
    let len_before = world.len() as usize;
    let missing = AtomicU64::new(0);
    let mut all: Vec<Entity> = Vec::new();
    std::thread::scope(|s| {
        let mut js = Vec::new();
        for t in 0..threads {
            let (w, missing) = (&world, &missing);
            js.push(s.spawn(move || {
                let mut mine = Vec::new();
                for i in 0..per {
                    if (i + t) % 4 == 0 {
                        mine.extend(w.reserve_entities(3));
                    } else {
                        mine.push(w.reserve_entity());
                    }
                    if !w.contains(*mine.last().unwrap()) {
                        missing.fetch_add(1, Ordering::SeqCst);
                    }
                }
                mine
            }));
        }
        for j in js {
            all.extend(j.join().unwrap());
        }
    });
    let mut set = std::collections::HashSet::new();
    let dups = all.iter().filter(|h| !set.insert(**h)).count() as u64;
    let notc = missing.load(Ordering::SeqCst) + all.iter().filter(|h| !world.contains(**h)).count() as u64;
    world.flush();
    let lenerr = (world.len() as usize != len_before + all.len()) as u64;
    out.push(dups);
    out.push(notc);
    out.push(lenerr);
    if dups != 0 || notc != 0 || lenerr != 0 {
        out.flag(format!("C07: real threads: {dups} duplicate handles, {notc} not contained, len mismatch {lenerr}"));
    }
}

/// engine 17: worlds constructed concurrently must be distinguishable by a prepared query.
/// `threads` threads build worlds in lock-step for `rounds` rounds; thread k's world gets one entity
/// with component C1 (even k) or C2 (odd k), so all worlds have the same number of archetypes but
/// different layouts.  One PreparedQuery is then moved between the worlds of each round; a stale
/// cache (two worlds taken for the same one) shows up as a wrong count.  Supporting real-thread run.
pub fn stress_world_ids(args: &[u64], out: &mut Out) {
    use crate::comps::{Comp, C1, C2};
    use hecs::{PreparedQuery, With, World};
    let (threads, rounds) = ((args[0] as usize).clamp(2, 8), args[1] as usize);
    let barrier = std::sync::Barrier::new(threads);
    let mut per_thread: Vec<Vec<World>> = Vec::new();
    std::thread::scope(|s| {
        let mut js = Vec::new();
        for k in 0..threads {
            let barrier = &barrier;
            js.push(s.spawn(move || {
                let mut ws = Vec::with_capacity(rounds);
                for r in 0..rounds {
                    barrier.wait();
                    // `Default` must hand out an identity of its own just as `new` does
                    let mut w = if r % 2 == 0 { World::new() } else { World::default() };
                    if k % 2 == 0 {
                        w.spawn((C1::new(1),));
                    } else {
                        w.spawn((C2::new(2),));
                    }
                    ws.push(w);
                }
                ws
            }));
        }
        for j in js {
            per_thread.push(j.join().unwrap());
        }
    });
    let mut stale = 0u64;
    let mut pq = PreparedQuery::<With<(), &C1>>::new();
    for r in 0..rounds {
        for k in 0..threads {
            let expect = if k % 2 == 0 { 1 } else { 0 };
            let got = pq.query(&per_thread[k][r]).iter().count();
            if got != expect {
                stale += 1;
            }
        }
    }
    out.push(stale);
    if stale != 0 {
        out.flag(format!("C17: a prepared query moved between concurrently constructed worlds returned {stale} stale results (world ids not unique?)"));
    }
    // the drop logs of the component types are thread local; forget what other threads' values log here
    drop(per_thread);
    let _ = crate::comps::drain_drops();
}

/// engine 71: reservations at the end of the 32-bit id space.  `nlive` entities exist; one lazy
/// `reserve_entities(u32::MAX - gap)` (never materialised, never flushed) parks the cursor `gap` ids before
/// the end; `k` further `reserve_entity` calls must hand out the remaining ids once each and then panic
/// ("too many entities") rather than wrap around onto ids that are live or already reserved.
pub fn reserve_exhaust(args: &[u64], out: &mut Out) {
    use hecs::{Entity, World};
    let (nlive, gap, k) = (args[0] as usize, args[1] as u32, args[2] as usize);
    let mut world = World::new();
    let live: Vec<Entity> = (0..nlive).map(|_| world.spawn(())).collect();
    let first = {
        let mut it = world.reserve_entities(u32::MAX - gap);
        it.next()
    };
    let mut got: Vec<Entity> = Vec::new();
    for _ in 0..k {
        let w = &world;
        match std::panic::catch_unwind(std::panic::AssertUnwindSafe(|| w.reserve_entity())) {
            Ok(h) => {
                out.push(h.to_bits().into());
                if live.iter().any(|l| l.id() == h.id()) || first.map_or(false, |f| f.id() == h.id()) || got.iter().any(|g| g.id() == h.id()) {
                    out.flag(format!("C07: at the end of the id space reserve_entity returned {:?}, an id that is live or already reserved", h));
                }
                got.push(h);
            }
            Err(_) => out.push(0),
        }
    }
    // never flushed: the world is dropped with the reservations outstanding
}
