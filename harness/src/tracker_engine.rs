//! Engine 18: ChangeTracker<T> against the snapshot-difference model (coq/Model/Tracker.v).
//! Oracle: an independent snapshot map kept by the harness (what `track` must report).
use crate::Out;
use hecs::*;
use std::collections::BTreeMap;
use std::panic::{catch_unwind, AssertUnwindSafe};

#[derive(Clone, PartialEq, Debug)]
/// the tracked component: 12 bytes with alignment 4 (size differs from alignment); field 0 is the value,
/// the padding must travel with it
pub struct Tk(pub u32, pub [u32; 2]);
#[allow(non_snake_case)]
pub fn TkNew(v: u32) -> Tk {
    Tk(v, [v ^ 0xA5A5_A5A5, !v])
}
pub struct Filler(pub u64);
pub struct M1(pub u8);
pub struct M2(pub u16);
pub struct M3(pub u64);

/// take up to `limit` items; len() must go down by exactly one per item and be 0 exactly at the end
fn walk_exact<I: ExactSizeIterator>(it: &mut I, limit: usize, items: &mut Vec<I::Item>) -> bool {
    let mut ok = true;
    let mut len = it.len();
    while items.len() < limit {
        match it.next() {
            Some(x) => {
                items.push(x);
                ok &= len > 0 && it.len() == len - 1;
                len = it.len();
            }
            None => {
                ok &= len == 0;
                break;
            }
        }
    }
    ok
}

/// A tracked type whose `PartialEq` is not reflexive (a float field holding NaN), in a world of its own: "unequal" is
/// what `!=` says, so a real change must be reported with the old and the new value, and the snapshot must follow.
/// `k` varies the other field's values.
fn nan_side(k: u32, out: &mut Out) {
    #[derive(Clone, PartialEq, Debug)]
    struct Fx(f32, u32);
    let mut w = World::new();
    let mut tr = ChangeTracker::<Fx>::new();
    let a = w.spawn((Fx(f32::NAN, k),));
    let b = w.spawn((Fx(1.5, k + 1),));
    drop(tr.track(&mut w));
    w.get::<&mut Fx>(a).unwrap().1 = k + 10;
    w.get::<&mut Fx>(b).unwrap().1 = k + 11;
    let mut got: Vec<(u64, u32, u32)> = tr.track(&mut w).changed().map(|(e, o, n)| (e.to_bits().into(), o.1, n.1)).collect();
    got.sort();
    let mut want: Vec<(u64, u32, u32)> = vec![(a.to_bits().into(), k, k + 10), (b.to_bits().into(), k + 1, k + 11)];
    want.sort();
    if got != want {
        out.flag(format!("C18: changed() with a component that is not equal to itself (NaN field): reported {:?}, expected {:?}", got, want));
    }
    w.get::<&mut Fx>(a).unwrap().1 = k + 20;
    let got2: Vec<(u32, u32)> = tr.track(&mut w).changed().filter(|(e, _, _)| *e == a).map(|(_, o, n)| (o.1, n.1)).collect();
    if got2 != vec![(k + 10, k + 20)] {
        out.flag(format!("C18: second change of the NaN-bearing component: reported {:?}, expected [({}, {})]", got2, k + 10, k + 20));
    }
}

pub fn run(args: &[u64], out: &mut Out) {
    nan_side(args.len() as u32, out);
    let mut world = World::new();
    let mut tracker = ChangeTracker::<Tk>::new();
    let mut hs: Vec<Entity> = Vec::new();
    let mut nbatch = 0usize;
    // oracle state: the T of every live entity at the time of the previous track call
    let mut snapshot: BTreeMap<u64, u32> = BTreeMap::new();
    let mut p = 0usize;
    let mut next = |p: &mut usize| {
        let x = args.get(*p).copied().unwrap_or(0);
        *p += 1;
        x
    };
    let href = |hs: &Vec<Entity>, i: u64| hs.get(i as usize).copied().unwrap_or(Entity::DANGLING);
    while p < args.len() {
        match next(&mut p) {
            1 => {
                let v = next(&mut p) as u32;
                // odd values arrive through a one-row column batch with a component set new to the world (the
                // archetype is then created by insert_batch, not by spawn): same entity as far as T is concerned
                let h = if v % 2 == 1 {
                    let mut ty = ColumnBatchType::new();
                    ty.add::<Tk>();
                    match nbatch % 3 {
                        0 => ty.add::<M1>(),
                        1 => ty.add::<M2>(),
                        _ => ty.add::<M3>(),
                    };
                    let mut b = ty.into_batch(1);
                    let _ = b.writer::<Tk>().unwrap().push(TkNew(v));
                    match nbatch % 3 {
                        0 => drop(b.writer::<M1>().unwrap().push(M1(1))),
                        1 => drop(b.writer::<M2>().unwrap().push(M2(2))),
                        _ => drop(b.writer::<M3>().unwrap().push(M3(3))),
                    }
                    nbatch += 1;
                    let mut it = world.spawn_column_batch(b.build().expect("complete batch"));
                    it.next().unwrap()
                } else if v % 4 == 2 {
                    // through a reservation: the id comes from the free list exactly as spawn would take it
                    let h = world.reserve_entity();
                    world.insert_one(h, TkNew(v)).unwrap();
                    h
                } else {
                    world.spawn((TkNew(v), Filler(7)))
                };
                hs.push(h);
                out.push(h.to_bits().into());
            }
            2 => {
                let h = world.spawn((Filler(7),));
                hs.push(h);
                out.push(h.to_bits().into());
            }
            3 => {
                let (i, v) = (next(&mut p), next(&mut p) as u32);
                out.push(world.insert_one(href(&hs, i), TkNew(v)).is_err() as u64);
                if v % 2 == 1 {
                    // an insert the tracker does not care about, on the same entity (same source archetype as the
                    // exchange route of the removal below uses)
                    let _ = world.insert_one(href(&hs, i), M1(1));
                }
            }
            4 => {
                let i = next(&mut p);
                // even indices remove T through exchange_one (T out, an unrelated marker in): the same outcome for T
                let res = if i % 2 == 0 { world.exchange_one::<Tk, M1>(href(&hs, i), M1(2)) } else { world.remove_one::<Tk>(href(&hs, i)) };
                if let Ok(t) = &res {
                    if t.1 != [t.0 ^ 0xA5A5_A5A5, !t.0] {
                        out.flag(format!("C18/C04: the removed component's bytes were damaged: {:?}", (t.0, t.1)));
                    }
                }
                out.push(match res {
                    Ok(_) => 0,
                    Err(ComponentError::NoSuchEntity) => 1,
                    Err(ComponentError::MissingComponent(_)) => 2,
                });
            }
            5 => {
                let i = next(&mut p);
                let r = world.despawn(href(&hs, i));
                if r.is_ok() {
                    // an entity revived later under the same handle (spawn_at) is a new entity for the reports
                    snapshot.remove(&u64::from(href(&hs, i).to_bits()));
                }
                out.push(r.is_err() as u64);
            }
            7 => {
                // one column batch of n rows into the (T, filler) archetype: several ids are taken in one go
                let (n, v) = (next(&mut p) as u32, next(&mut p) as u32);
                let mut ty = ColumnBatchType::new();
                ty.add::<Tk>();
                ty.add::<Filler>();
                let mut b = ty.into_batch(n);
                {
                    let mut w = b.writer::<Tk>().unwrap();
                    for i in 0..n {
                        let _ = w.push(TkNew(v + 2 * i));
                    }
                }
                {
                    let mut w = b.writer::<Filler>().unwrap();
                    for _ in 0..n {
                        let _ = w.push(Filler(7));
                    }
                }
                let new: Vec<Entity> = world.spawn_column_batch(b.build().expect("complete batch")).collect();
                for h in new {
                    hs.push(h);
                    out.push(h.to_bits().into());
                }
            }
            8 => {
                // spawn_at on a handle that is not live (a live one would be "the same entity" with new components,
                // which the property does not speak about): revives the id or evicts its current holder
                let (i, v) = (next(&mut p), next(&mut p) as u32);
                match hs.get(i as usize).copied() {
                    Some(h) if !world.contains(h) => {
                        let evicted: Vec<u64> = world.iter().map(|e| u64::from(e.entity().to_bits())).filter(|b| *b as u32 == h.id()).collect();
                        for b in evicted {
                            snapshot.remove(&b);
                        }
                        world.spawn_at(h, (TkNew(v), Filler(7)));
                        out.push(0);
                    }
                    _ => out.push(9),
                }
            }
            6 => {
                let n = next(&mut p) as usize;
                let reads: Vec<(u64, u64)> = (0..n).map(|_| (next(&mut p), next(&mut p))).collect();
                // what must be reported, from the snapshot and the current world
                let mut now: BTreeMap<u64, u32> = BTreeMap::new();
                let mut live: Vec<u64> = Vec::new();
                for e in world.iter() {
                    let b: u64 = e.entity().to_bits().into();
                    live.push(b);
                    if let Some(t) = e.get::<&Tk>() {
                        now.insert(b, t.0);
                    }
                }
                let exp_added: Vec<(u64, u32)> = now.iter().filter(|(b, _)| !snapshot.contains_key(b)).map(|(b, v)| (*b, *v)).collect();
                let exp_changed: Vec<(u64, u32, u32)> = now.iter().filter_map(|(b, v)| snapshot.get(b).filter(|o| *o != v).map(|o| (*b, *o, *v))).collect();
                let exp_removed: Vec<(u64, u32)> = snapshot.iter().filter(|(b, _)| live.contains(b) && !now.contains_key(b)).map(|(b, v)| (*b, *v)).collect();
                let (mut seen_a, mut seen_c, mut seen_r) = (false, false, false);
                {
                    let mut ch = tracker.track(&mut world);
                    for (kind, limit) in reads {
                        match kind {
                            0 => {
                                if (100..255).contains(&limit) {
                                    // the consumer panics inside its loop after limit-100 items; the report iterator and
                                    // (later) the Changes value are dropped during / after the unwinding
                                    let r = catch_unwind(AssertUnwindSafe(|| {
                                        let mut it = ch.added();
                                        let mut items = Vec::new();
                                        walk_exact(&mut it, (limit - 100) as usize, &mut items);
                                        std::panic::panic_any(items.len());
                                    }));
                                    out.push(*r.unwrap_err().downcast::<usize>().unwrap() as u64);
                                    seen_a = true;
                                    continue;
                                }
                                let mut it = ch.added();
                                let len = it.len();
                                if limit < 255 {
                                    let mut items = Vec::new();
                                    if !walk_exact(&mut it, limit as usize, &mut items) {
                                        out.flag("C18: added(): len() does not count the items still to come".to_string());
                                    }
                                    out.push(items.len() as u64);
                                } else {
                                    let mut items = Vec::new();
                                    if !walk_exact(&mut it, usize::MAX, &mut items) {
                                        out.flag("C18: added(): len() does not count the items still to come".to_string());
                                    }
                                    let mut v: Vec<(u64, u32)> = items.into_iter().map(|(e, t)| (e.to_bits().into(), t.0)).collect();
                                    v.sort();
                                    if len != v.len() {
                                        out.flag(format!("C18: added().len() = {len} but {} items were yielded", v.len()));
                                    }
                                    out.push(v.len() as u64);
                                    for (b, t) in &v {
                                        out.push(*b);
                                        out.push(*t as u64);
                                    }
                                    if v != exp_added {
                                        out.flag(format!("C18: added() reported {:?}, snapshot difference is {:?}", v, exp_added));
                                    }
                                }
                                seen_a = true;
                            }
                            1 => {
                                if (100..255).contains(&limit) {
                                    let r = catch_unwind(AssertUnwindSafe(|| {
                                        let n = ch.changed().take((limit - 100) as usize).count();
                                        std::panic::panic_any(n);
                                    }));
                                    out.push(*r.unwrap_err().downcast::<usize>().unwrap() as u64);
                                    seen_c = true;
                                    continue;
                                }
                                let it = ch.changed();
                                if limit < 255 {
                                    out.push(it.take(limit as usize).count() as u64);
                                } else {
                                    let mut v: Vec<(u64, u32, u32)> = it.map(|(e, o, n)| (e.to_bits().into(), o.0, n.0)).collect();
                                    v.sort();
                                    out.push(v.len() as u64);
                                    for (b, o, n) in &v {
                                        out.push(*b);
                                        out.push(*o as u64);
                                        out.push(*n as u64);
                                    }
                                    if !seen_c && v != exp_changed {
                                        out.flag(format!("C18: changed() reported {:?}, snapshot difference is {:?}", v, exp_changed));
                                    }
                                }
                                seen_c = true;
                            }
                            _ => {
                                if (100..255).contains(&limit) {
                                    let r = catch_unwind(AssertUnwindSafe(|| {
                                        let mut it = ch.removed();
                                        let mut items = Vec::new();
                                        walk_exact(&mut it, (limit - 100) as usize, &mut items);
                                        std::panic::panic_any(items.len());
                                    }));
                                    out.push(*r.unwrap_err().downcast::<usize>().unwrap() as u64);
                                    seen_r = true;
                                    continue;
                                }
                                let mut it = ch.removed();
                                let len = it.len();
                                if limit < 255 {
                                    let mut items = Vec::new();
                                    if !walk_exact(&mut it, limit as usize, &mut items) {
                                        out.flag("C18: removed(): len() does not count the items still to come".to_string());
                                    }
                                    out.push(items.len() as u64);
                                } else {
                                    let mut items = Vec::new();
                                    if !walk_exact(&mut it, usize::MAX, &mut items) {
                                        out.flag("C18: removed(): len() does not count the items still to come".to_string());
                                    }
                                    let mut v: Vec<(u64, u32)> = items.into_iter().map(|(e, o)| (e.to_bits().into(), o.0)).collect();
                                    v.sort();
                                    if len != v.len() {
                                        out.flag(format!("C18: removed().len() = {len} but {} items were yielded", v.len()));
                                    }
                                    out.push(v.len() as u64);
                                    for (b, o) in &v {
                                        out.push(*b);
                                        out.push(*o as u64);
                                    }
                                    if !seen_r && v != exp_removed {
                                        out.flag(format!("C18: removed() reported {:?}, snapshot difference is {:?}", v, exp_removed));
                                    }
                                }
                                seen_r = true;
                            }
                        }
                    }
                }
                let _ = seen_a;
                // whatever was or was not read, the next call is relative to the state now
                snapshot = now;
            }
            _ => break,
        }
    }
}
