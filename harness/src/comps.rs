//! Harness component types: eight layouts (ZST, over-aligned ZST, 4/8-byte, heap-owning,
//! align-64, wide-but-byte-aligned, 320-byte), each carrying a serial number and logging its drop.
use std::cell::RefCell;

thread_local! {
    /// (type index, serial) of every component dropped since the log was last drained
    pub static DROPS: RefCell<Vec<(u64, u64)>> = RefCell::new(Vec::new());
    /// fresh serials for clones (mirrored by the model where clones are modelled)
    pub static CLONE_SERIAL: RefCell<u64> = RefCell::new(1 << 30);
}

thread_local! {
    /// (type index, serial) of every clone made since the log was last drained
    pub static CLONES: RefCell<Vec<(u64, u64)>> = RefCell::new(Vec::new());
}

pub fn drain_clones() -> Vec<(u64, u64)> {
    CLONES.with(|d| std::mem::take(&mut *d.borrow_mut()))
}

pub fn reset_clone_serial() {
    CLONE_SERIAL.with(|c| *c.borrow_mut() = 1 << 30);
    drain_clones();
}

thread_local! {
    /// (type index, address) of components that were dropped at a misaligned address
    pub static MISALIGNED: RefCell<Vec<(u64, u64)>> = RefCell::new(Vec::new());
}
thread_local! {
    /// verdicts of oracles that sit where no `Out` is at hand; reported with the next operation result
    pub static NOTES: RefCell<Vec<String>> = RefCell::new(Vec::new());
}
pub fn note(s: String) {
    let _ = NOTES.try_with(|n| n.borrow_mut().push(s));
}
pub fn take_notes() -> Vec<String> {
    NOTES.with(|d| std::mem::take(&mut *d.borrow_mut()))
}
/// Every handle of a `reserve_entities` iterator, taken in one of several equivalent ways (plain iteration, `step_by(1)`,
/// repeated `nth(0)`, `skip(0)`, `last` after a partial read): iterator adaptors go through overridable methods of
/// the iterator. Capped: a method that does not consume what it returns would otherwise never end.
pub fn drain_reserved<I: Iterator<Item = hecs::Entity> + ExactSizeIterator>(it: I, n: usize) -> Vec<hecs::Entity> {
    drain_handles(it, n, "reserve_entities")
}
/// the same for any iterator of new handles (batch spawns)
pub fn drain_handles<I: Iterator<Item = hecs::Entity> + ExactSizeIterator>(mut it: I, n: usize, what: &str) -> Vec<hecs::Entity> {
    static MODE: std::sync::atomic::AtomicUsize = std::sync::atomic::AtomicUsize::new(0);
    let mode = MODE.fetch_add(1, std::sync::atomic::Ordering::Relaxed) % 5;
    if it.len() != n {
        note(format!("C07/C12: {what}({n}) announces {} handles", it.len()));
    }
    let v: Vec<hecs::Entity> = match mode {
        0 => it.collect(),
        1 => it.step_by(1).take(n + 2).collect(),
        2 => {
            let mut v = Vec::new();
            while let Some(h) = it.nth(0) {
                v.push(h);
                if v.len() > n + 1 {
                    break;
                }
            }
            v
        }
        3 => it.skip(0).take(n + 2).collect(),
        _ => {
            // all but the last one by one, the last through `last()`
            let mut v = Vec::new();
            while v.len() + 1 < n {
                match it.next() {
                    Some(h) => v.push(h),
                    None => break,
                }
            }
            if it.len() > 1 {
                note(format!("C07/C12: {what}: {} handles left where at most one should be", it.len()));
            }
            v.extend(it.last());
            v
        }
    };
    if v.len() != n {
        note(format!("C07/C12: {what}({n}) yielded {} handles (mode {mode})", v.len()));
    }
    v
}
pub fn take_misaligned() -> Vec<(u64, u64)> {
    MISALIGNED.with(|d| std::mem::take(&mut *d.borrow_mut()))
}

pub fn drain_drops() -> Vec<(u64, u64)> {
    DROPS.with(|d| std::mem::take(&mut *d.borrow_mut()))
}

fn log_drop(t: u64, v: u64) {
    // `try_with`: components may be dropped during thread teardown
    let _ = DROPS.try_with(|d| d.borrow_mut().push((t, v)));
}

pub fn drops_len() -> usize {
    DROPS.with(|d| d.borrow().len())
}

pub fn truncate_drops(n: usize) {
    DROPS.with(|d| d.borrow_mut().truncate(n));
}

pub fn next_clone_serial() -> u64 {
    CLONE_SERIAL.with(|c| {
        let mut c = c.borrow_mut();
        *c += 1;
        *c
    })
}

pub trait Comp: hecs::Component + Sized + Clone {
    const T: u64;
    fn new(v: u64) -> Self;
    fn val(&self) -> u64;
    fn set(&mut self, v: u64);
}

macro_rules! comp_drop {
    ($name:ident) => {
        impl Drop for $name {
            fn drop(&mut self) {
                // a component dropped in place must sit at an address aligned for its type
                let addr = std::hint::black_box(self as *const $name as usize); // black_box: the optimiser assumes references are aligned
                if addr % std::mem::align_of::<$name>() != 0 {
                    let _ = MISALIGNED.try_with(|m| m.borrow_mut().push((<$name as Comp>::T, addr as u64)));
                }
                log_drop(<$name as Comp>::T, self.val());
            }
        }
        impl Clone for $name {
            fn clone(&self) -> Self {
                // a clone is a new value with its own identity
                let v = next_clone_serial();
                let _ = CLONES.try_with(|c| c.borrow_mut().push((<$name as Comp>::T, v)));
                <$name as Comp>::new(v)
            }
        }
    };
}

pub struct C0;
impl Comp for C0 {
    const T: u64 = 0;
    fn new(_: u64) -> Self {
        C0
    }
    fn val(&self) -> u64 {
        0
    }
    fn set(&mut self, _: u64) {}
}
comp_drop!(C0);

pub struct C1(pub u32);
impl Comp for C1 {
    const T: u64 = 1;
    fn new(v: u64) -> Self {
        C1(v as u32)
    }
    fn val(&self) -> u64 {
        self.0 as u64
    }
    fn set(&mut self, v: u64) {
        self.0 = v as u32
    }
}
comp_drop!(C1);

pub struct C2(pub u64);
impl Comp for C2 {
    const T: u64 = 2;
    fn new(v: u64) -> Self {
        C2(v)
    }
    fn val(&self) -> u64 {
        self.0
    }
    fn set(&mut self, v: u64) {
        self.0 = v
    }
}
comp_drop!(C2);

pub struct C3(pub Box<u64>);
impl Comp for C3 {
    const T: u64 = 3;
    fn new(v: u64) -> Self {
        C3(Box::new(v))
    }
    fn val(&self) -> u64 {
        *self.0
    }
    fn set(&mut self, v: u64) {
        *self.0 = v
    }
}
comp_drop!(C3);

#[repr(align(64))]
pub struct C4(pub u64);
impl Comp for C4 {
    const T: u64 = 4;
    fn new(v: u64) -> Self {
        C4(v)
    }
    fn val(&self) -> u64 {
        self.0
    }
    fn set(&mut self, v: u64) {
        self.0 = v
    }
}
comp_drop!(C4);

/// size 24, alignment 1: orders differently by size than by alignment
pub struct C5(pub [u8; 24]);
impl Comp for C5 {
    const T: u64 = 5;
    fn new(v: u64) -> Self {
        let mut b = [0u8; 24];
        b[..8].copy_from_slice(&v.to_le_bytes());
        b[8..16].copy_from_slice(&(!v).to_le_bytes());
        b[16..24].copy_from_slice(&v.wrapping_mul(0x9E3779B97F4A7C15).to_le_bytes());
        C5(b)
    }
    fn val(&self) -> u64 {
        let v = u64::from_le_bytes(self.0[..8].try_into().unwrap());
        let n = u64::from_le_bytes(self.0[8..16].try_into().unwrap());
        let h = u64::from_le_bytes(self.0[16..24].try_into().unwrap());
        if n != !v || h != v.wrapping_mul(0x9E3779B97F4A7C15) {
            return u64::MAX - 5; // corrupted payload
        }
        v
    }
    fn set(&mut self, v: u64) {
        let n = C5::new(v);
        self.0 = n.0;
        std::mem::forget(n);
    }
}
comp_drop!(C5);

// a zero-sized type with alignment 8: above 1, not above the builders' initial 8-aligned dangling base
#[repr(align(8))]
pub struct C6;
impl Comp for C6 {
    const T: u64 = 6;
    fn new(_: u64) -> Self {
        C6
    }
    fn val(&self) -> u64 {
        0
    }
    fn set(&mut self, _: u64) {}
}
comp_drop!(C6);

pub struct C7(pub [u64; 40]);
impl Comp for C7 {
    const T: u64 = 7;
    fn new(v: u64) -> Self {
        let mut a = [0u64; 40];
        for (i, x) in a.iter_mut().enumerate() {
            *x = v.wrapping_add(i as u64).wrapping_mul(0x9E3779B97F4A7C15);
        }
        a[0] = v;
        C7(a)
    }
    fn val(&self) -> u64 {
        let v = self.0[0];
        for (i, x) in self.0.iter().enumerate().skip(1) {
            if *x != v.wrapping_add(i as u64).wrapping_mul(0x9E3779B97F4A7C15) {
                return u64::MAX - 7; // corrupted payload
            }
        }
        v
    }
    fn set(&mut self, v: u64) {
        let n = C7::new(v);
        self.0 = n.0;
        std::mem::forget(n);
    }
}
comp_drop!(C7);

pub const NTYPES: usize = 8;

/// (align, size) of every universe type and the rank of its TypeId
pub fn universe() -> Vec<(u64, u64, u64)> {
    use std::any::TypeId;
    use std::mem::{align_of, size_of};
    let ids = [
        TypeId::of::<C0>(),
        TypeId::of::<C1>(),
        TypeId::of::<C2>(),
        TypeId::of::<C3>(),
        TypeId::of::<C4>(),
        TypeId::of::<C5>(),
        TypeId::of::<C6>(),
        TypeId::of::<C7>(),
    ];
    let lay = [
        (align_of::<C0>(), size_of::<C0>()),
        (align_of::<C1>(), size_of::<C1>()),
        (align_of::<C2>(), size_of::<C2>()),
        (align_of::<C3>(), size_of::<C3>()),
        (align_of::<C4>(), size_of::<C4>()),
        (align_of::<C5>(), size_of::<C5>()),
        (align_of::<C6>(), size_of::<C6>()),
        (align_of::<C7>(), size_of::<C7>()),
    ];
    (0..NTYPES)
        .map(|i| {
            let rank = ids.iter().filter(|x| **x < ids[i]).count();
            (lay[i].0 as u64, lay[i].1 as u64, rank as u64)
        })
        .collect()
}

/// run `$body` with `$C` bound to the component type with index `$t`
#[macro_export]
macro_rules! with_comp {
    ($t:expr, $C:ident, $body:expr) => {
        match $t {
            0 => {
                type $C = $crate::comps::C0;
                $body
            }
            1 => {
                type $C = $crate::comps::C1;
                $body
            }
            2 => {
                type $C = $crate::comps::C2;
                $body
            }
            3 => {
                type $C = $crate::comps::C3;
                $body
            }
            4 => {
                type $C = $crate::comps::C4;
                $body
            }
            5 => {
                type $C = $crate::comps::C5;
                $body
            }
            6 => {
                type $C = $crate::comps::C6;
                $body
            }
            _ => {
                type $C = $crate::comps::C7;
                $body
            }
        }
    };
}

/// Static tuple bundles built from value slices
pub trait TupleB: hecs::Bundle + hecs::DynamicBundle + 'static {
    fn from_vals(v: &[u64]) -> Self;
    /// (type, value) of every field in declaration order (consumes without dropping the payloads'
    /// identity: the values are reported as "returned to the caller")
    fn into_vals(self) -> Vec<(u64, u64)>;
}

macro_rules! tuple_b {
    ($($n:ident : $i:tt),*) => {
        impl<$($n: Comp),*> TupleB for ($($n,)*) {
            #[allow(unused_variables)]
            fn from_vals(v: &[u64]) -> Self { ($($n::new(v[$i]),)*) }
            fn into_vals(self) -> Vec<(u64, u64)> {
                #[allow(unused_mut)]
                let mut out = Vec::new();
                $( out.push(($n::T, self.$i.val())); )*
                // dropping the tuple logs the drops; callers of into_vals account for that
                out
            }
        }
    };
}
tuple_b!();
tuple_b!(A:0);
tuple_b!(A:0, B:1);
tuple_b!(A:0, B:1, C:2);
tuple_b!(A:0, B:1, C:2, D:3);

pub trait TupleVisitor {
    type Out;
    fn visit<B: TupleB>(self) -> Self::Out;
}


// ---- serde forms of the handled component types (a number each); every decoded value is counted ----
thread_local! {
    pub static DECODED: RefCell<u64> = RefCell::new(0);
}
pub fn take_decoded() -> u64 {
    DECODED.with(|d| std::mem::take(&mut *d.borrow_mut()))
}
macro_rules! comp_serde {
    ($name:ident, $ser:ident, $ty:ty) => {
        impl serde::Serialize for $name {
            fn serialize<S: serde::Serializer>(&self, s: S) -> Result<S::Ok, S::Error> {
                s.$ser(self.val() as $ty)
            }
        }
        impl<'de> serde::Deserialize<'de> for $name {
            fn deserialize<D: serde::Deserializer<'de>>(d: D) -> Result<Self, D::Error> {
                let v = <$ty as serde::Deserialize>::deserialize(d)?;
                DECODED.with(|c| *c.borrow_mut() += 1);
                Ok(<$name as Comp>::new(v as u64))
            }
        }
    };
}
comp_serde!(C1, serialize_u32, u32);
comp_serde!(C2, serialize_u64, u64);
comp_serde!(C3, serialize_u64, u64);
