//! Derived Query structs and enums (hecs-macros) with hand-written self-descriptions.
//! A derived struct is the tuple of its fields. A derived enum yields the FIRST variant whose fields
//! all match, which is described to the model as Or(V1, Without(V2, V1)) etc.: the item is then
//! Left for variant 1, Right for variant 2 (Right(Left)/Right(Right) with three variants).
use crate::comps::*;
use crate::query_engine::{EncItem, QDesc};
use hecs::Query;

#[derive(Query)]
pub struct DS<'a> {
    pub a: &'a C1,
    pub b: Option<&'a mut C2>,
}
impl QDesc for DS<'static> {
    fn ast(out: &mut Vec<u64>) {
        out.extend([8, 2, 1, 1, 3, 2, 2]);
    }
}
impl EncItem for DS<'_> {
    fn enc(&self, out: &mut Vec<u64>) {
        out.extend([8, 2]);
        self.a.enc(out);
        self.b.enc(out);
    }
}

#[derive(Query)]
pub enum DE2<'a> {
    A { x: &'a mut C1 },
    B { y: &'a C2 },
}
impl QDesc for DE2<'static> {
    fn ast(out: &mut Vec<u64>) {
        out.extend([4, 8, 1, 2, 1, 6, 8, 1, 1, 2, 8, 1, 2, 1]);
    }
}
impl EncItem for DE2<'_> {
    fn enc(&self, out: &mut Vec<u64>) {
        match self {
            DE2::A { x } => {
                out.extend([4, 8, 1]);
                x.enc(out);
            }
            DE2::B { y } => {
                out.extend([5, 8, 1]);
                y.enc(out);
            }
        }
    }
}

#[derive(Query)]
pub enum DE3<'a> {
    A { x: &'a C1, y: &'a C2 },
    B { z: &'a C3 },
    E,
}
impl QDesc for DE3<'static> {
    fn ast(out: &mut Vec<u64>) {
        let v1 = [8u64, 2, 1, 1, 1, 2];
        let v2 = [8u64, 1, 1, 3];
        let v3 = [8u64, 0];
        out.push(4);
        out.extend(v1);
        out.extend([4, 6]);
        out.extend(v2);
        out.extend(v1);
        out.extend([6, 6]);
        out.extend(v3);
        out.extend(v2);
        out.extend(v1);
    }
}
impl EncItem for DE3<'_> {
    fn enc(&self, out: &mut Vec<u64>) {
        match self {
            DE3::A { x, y } => {
                out.extend([4, 8, 2]);
                x.enc(out);
                y.enc(out);
            }
            DE3::B { z } => {
                out.extend([5, 4, 8, 1]);
                z.enc(out);
            }
            DE3::E => out.extend([5, 5, 8, 0]),
        }
    }
}
