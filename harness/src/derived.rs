//! Derived Query structs and enums (hecs-macros) with hand-written self-descriptions.
//! A derived struct is the tuple of its fields. A derived enum yields the FIRST variant whose fields
//! all match, which is described to the model as Or(V1, Without(V2, V1)) etc.: the item is then
//! Left for variant 1, Right for variant 2 (Right(Left)/Right(Right) with three variants).
use crate::comps::*;
use crate::query_engine::{EncItem, QDesc};
use hecs::Query;

#[derive(Query)]
pub struct DS<'a> {
    pub a: &'a C1,
    pub b: Option<&'a mut C2>,
}
impl QDesc for DS<'static> {
    fn ast(out: &mut Vec<u64>) {
        out.extend([8, 2, 1, 1, 3, 2, 2]);
    }
}
impl EncItem for DS<'_> {
    fn enc(&self, out: &mut Vec<u64>) {
        out.extend([8, 2]);
        self.a.enc(out);
        self.b.enc(out);
    }
}

#[derive(Query)]
pub enum DE2<'a> {
    A { x: &'a mut C1 },
    B { y: &'a C2 },
}
impl QDesc for DE2<'static> {
    fn ast(out: &mut Vec<u64>) {
        out.extend([4, 8, 1, 2, 1, 6, 8, 1, 1, 2, 8, 1, 2, 1]);
    }
}
impl EncItem for DE2<'_> {
    fn enc(&self, out: &mut Vec<u64>) {
        match self {
            DE2::A { x } => {
                out.extend([4, 8, 1]);
                x.enc(out);
            }
            DE2::B { y } => {
                out.extend([5, 8, 1]);
                y.enc(out);
            }
        }
    }
}

#[derive(Query)]
pub enum DE3<'a> {
    A { x: &'a C1, y: &'a C2 },
    B { z: &'a C3 },
    E,
}
impl QDesc for DE3<'static> {
    fn ast(out: &mut Vec<u64>) {
        let v1 = [8u64, 2, 1, 1, 1, 2];
        let v2 = [8u64, 1, 1, 3];
        let v3 = [8u64, 0];
        out.push(4);
        out.extend(v1);
        out.extend([4, 6]);
        out.extend(v2);
        out.extend(v1);
        out.extend([6, 6]);
        out.extend(v3);
        out.extend(v2);
        out.extend(v1);
    }
}
impl EncItem for DE3<'_> {
    fn enc(&self, out: &mut Vec<u64>) {
        match self {
            DE3::A { x, y } => {
                out.extend([4, 8, 2]);
                x.enc(out);
                y.enc(out);
            }
            DE3::B { z } => {
                out.extend([5, 4, 8, 1]);
                z.enc(out);
            }
            DE3::E => out.extend([5, 5, 8, 0]),
        }
    }
}


// ---------------------------------------------------------------------------------------------
// derived Bundle structs (bundle kinds 10..15 of the script format): macros/src/bundle.rs
use crate::comps::TupleB;
use hecs::Bundle;

macro_rules! derived_bundle {
    ($name:ident { $($f:ident : $t:ident),* }) => {
        #[derive(Bundle)]
        pub struct $name { $(pub $f: $t),* }
        impl TupleB for $name {
            fn from_vals(v: &[u64]) -> Self {
                let mut i = 0usize;
                #[allow(unused_assignments)]
                let r = $name { $($f: { let x = <$t as Comp>::new(v[i]); i += 1; x }),* };
                r
            }
            fn into_vals(self) -> Vec<(u64, u64)> {
                vec![$((<$t as Comp>::T, self.$f.val())),*]
            }
        }
    };
}
derived_bundle!(DB0 { a: C1, b: C2 });
derived_bundle!(DB1 { b: C2, a: C1 });
derived_bundle!(DB2 { x: C0, y: C4, z: C3 });
derived_bundle!(DB3 { z: C6, y: C5, x: C7, w: C1 });
derived_bundle!(DB4 { only: C3 });
derived_bundle!(DB5 { first: C1, second: C1 });
// three fields of equal alignment in both declaration orders: only the TypeId tie-break orders them
derived_bundle!(DB6 { p: C2, q: C3, r: C7 });
derived_bundle!(DB7 { r: C7, q: C3, p: C2 });

/// a derived Bundle with a type parameter, used at three instantiations (kinds 18, 19, 20): code the derive
/// generates inside the generic impl (statics, caches) is shared by all of them
#[derive(Bundle)]
pub struct DG<T: hecs::Component> {
    pub a: C1,
    pub t: T,
}
impl<T: Comp + hecs::Component> TupleB for DG<T> {
    fn from_vals(v: &[u64]) -> Self {
        let a = <C1 as Comp>::new(v[0]);
        let t = <T as Comp>::new(v[1]);
        DG { a, t }
    }
    fn into_vals(self) -> Vec<(u64, u64)> {
        vec![(<C1 as Comp>::T, self.a.val()), (<T as Comp>::T, self.t.val())]
    }
}

/// field types of the derived bundle struct of a kind
pub fn derived_types(kind: u64) -> Option<&'static [u64]> {
    Some(match kind {
        10 => &[1, 2],
        11 => &[2, 1],
        12 => &[0, 4, 3],
        13 => &[6, 5, 7, 1],
        14 => &[3],
        15 => &[1, 1],
        16 => &[2, 3, 7],
        17 => &[7, 3, 2],
        18 => &[1, 2],
        19 => &[1, 5],
        20 => &[1, 3],
        _ => return None,
    })
}

/// static bundles by kind: 0 = tuple (catalogue), 10.. = derived struct
pub fn dispatch_bundle<V: crate::comps::TupleVisitor>(kind: u64, types: &[u64], v: V) -> Option<V::Out> {
    if kind == 0 {
        return crate::gen_tuples::dispatch_tuple(types, v);
    }
    if derived_types(kind) != Some(types) {
        return None;
    }
    Some(match kind {
        10 => v.visit::<DB0>(),
        11 => v.visit::<DB1>(),
        12 => v.visit::<DB2>(),
        13 => v.visit::<DB3>(),
        14 => v.visit::<DB4>(),
        16 => v.visit::<DB6>(),
        17 => v.visit::<DB7>(),
        18 => v.visit::<DG<C2>>(),
        19 => v.visit::<DG<C5>>(),
        20 => v.visit::<DG<C3>>(),
        _ => v.visit::<DB5>(),
    })
}
