//! A tracking global allocator: records every live allocation (address -> size, align) so that
//! the harness can check that every reference hecs hands out lies inside ONE live allocation, that
//! no zero-size allocation is requested, and that every deallocation names the layout it was
//! allocated with.  Tracking is per thread (the engines are single-threaded) and switched on by the
//! engines that want it.
use std::alloc::{GlobalAlloc, Layout, System};
use std::cell::{Cell, RefCell};
use std::collections::BTreeMap;

pub struct Tracker;

thread_local! {
    static ENABLED: Cell<bool> = const { Cell::new(false) };
    static IN_HOOK: Cell<bool> = const { Cell::new(false) };
    static LIVE: RefCell<BTreeMap<usize, (usize, usize)>> = const { RefCell::new(BTreeMap::new()) };
    static VIOLATIONS: RefCell<Vec<String>> = const { RefCell::new(Vec::new()) };
}

fn hook<F: FnOnce()>(f: F) {
    let on = ENABLED.try_with(|e| e.get()).unwrap_or(false);
    if !on {
        return;
    }
    let nested = IN_HOOK.try_with(|h| h.replace(true)).unwrap_or(true);
    if nested {
        return;
    }
    f();
    let _ = IN_HOOK.try_with(|h| h.set(false));
}

unsafe impl GlobalAlloc for Tracker {
    unsafe fn alloc(&self, layout: Layout) -> *mut u8 {
        let p = System.alloc(layout);
        hook(|| {
            if layout.size() == 0 {
                VIOLATIONS.with(|v| v.borrow_mut().push(format!("alloc with zero size (align {})", layout.align())));
            }
            LIVE.with(|l| {
                l.borrow_mut().insert(p as usize, (layout.size(), layout.align()));
            });
        });
        p
    }
    unsafe fn dealloc(&self, p: *mut u8, layout: Layout) {
        hook(|| {
            LIVE.with(|l| match l.borrow_mut().remove(&(p as usize)) {
                Some((s, a)) => {
                    if s != layout.size() || a != layout.align() {
                        VIOLATIONS.with(|v| {
                            v.borrow_mut().push(format!("dealloc with layout ({}, {}) of a block allocated with ({}, {})", layout.size(), layout.align(), s, a))
                        });
                    }
                }
                None => {} // allocated before tracking was switched on
            });
        });
        System.dealloc(p, layout)
    }
    unsafe fn realloc(&self, p: *mut u8, layout: Layout, new_size: usize) -> *mut u8 {
        let q = System.realloc(p, layout, new_size);
        hook(|| {
            LIVE.with(|l| {
                let mut l = l.borrow_mut();
                l.remove(&(p as usize));
                l.insert(q as usize, (new_size, layout.align()));
            });
        });
        q
    }
}

pub fn enable(on: bool) {
    ENABLED.with(|e| e.set(on));
    if !on {
        let _ = IN_HOOK.try_with(|h| h.set(true));
        LIVE.with(|l| l.borrow_mut().clear());
        let _ = IN_HOOK.try_with(|h| h.set(false));
    }
}

/// the live allocation containing [addr, addr+len), if any: (start, size)
pub fn block_of(addr: usize, len: usize) -> Option<(usize, usize)> {
    let was = IN_HOOK.with(|h| h.replace(true));
    let r = LIVE.with(|l| {
        let l = l.borrow();
        l.range(..=addr).next_back().and_then(|(s, (sz, _))| if addr + len <= s + sz { Some((*s, *sz)) } else { None })
    });
    IN_HOOK.with(|h| h.set(was));
    r
}

pub fn take_violations() -> Vec<String> {
    let was = IN_HOOK.with(|h| h.replace(true));
    let v = VIOLATIONS.with(|v| std::mem::take(&mut *v.borrow_mut()));
    IN_HOOK.with(|h| h.set(was));
    v
}
