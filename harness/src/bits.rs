//! Engine 19: Entity::{to_bits, from_bits}, Eq/Ord/Hash, serde form.
use crate::Out;
use hecs::Entity;
use std::collections::hash_map::DefaultHasher;
use std::hash::{Hash, Hasher};

fn h1(e: &Entity) -> u64 {
    let mut h = DefaultHasher::new();
    e.hash(&mut h);
    h.finish()
}

/// FNV-style second hasher, so that "equal handles hash equally" is checked under two hashers
struct Fnv(u64);
impl Hasher for Fnv {
    fn finish(&self) -> u64 {
        self.0
    }
    fn write(&mut self, bytes: &[u8]) {
        for b in bytes {
            self.0 = (self.0 ^ *b as u64).wrapping_mul(0x100000001b3);
        }
    }
}
fn h2(e: &Entity) -> u64 {
    let mut h = Fnv(0xcbf29ce484222325);
    e.hash(&mut h);
    h.finish()
}

fn describe(b: u64, out: &mut Out) -> Option<Entity> {
    let e = Entity::from_bits(b);
    // serde form: deserialisation accepts exactly what from_bits accepts
    let js: Result<Entity, _> = serde_json::from_str(&b.to_string());
    let bc: Result<Entity, _> = bincode::deserialize(&b.to_le_bytes());
    if js.is_ok() != e.is_some() || bc.is_ok() != e.is_some() {
        out.flag(format!("serde decode of {b} disagrees with from_bits"));
    }
    if e.is_some() != (b >> 32 != 0) {
        out.flag(format!("from_bits({b:#x}) is_some = {} but upper half is {:#x}", e.is_some(), b >> 32));
    }
    match e {
        None => {
            out.push(0);
            None
        }
        Some(e) => {
            let tb: u64 = e.to_bits().into();
            out.push(1);
            out.push(e.id() as u64);
            out.push(tb >> 32);
            out.push(tb);
            if e.id() as u64 != (b & 0xFFFF_FFFF) {
                out.flag(format!("from_bits({b:#x}).id() = {}", e.id()));
            }
            if tb != b {
                out.flag(format!("to_bits(from_bits({b})) = {tb}"));
            }
            if js.ok() != Some(e) || bc.ok() != Some(e) {
                out.flag(format!("serde decode of {b} yields a different handle"));
            }
            if serde_json::to_string(&e).unwrap() != tb.to_string() || bincode::serialize(&e).unwrap() != tb.to_le_bytes() {
                out.flag(format!("serde form of {b} is not its bit pattern"));
            }
            if Entity::from_bits(tb) != Some(e) {
                out.flag(format!("from_bits(to_bits(e)) != e for {b}"));
            }
            Some(e)
        }
    }
}

pub fn run(args: &[u64], out: &mut Out) {
    if args.len() < 2 {
        return;
    }
    let e1 = describe(args[0], out);
    let e2 = describe(args[1], out);
    if let (Some(a), Some(b)) = (e1, e2) {
        out.push((a == b) as u64);
        out.push(match a.cmp(&b) {
            std::cmp::Ordering::Less => 0,
            std::cmp::Ordering::Equal => 1,
            std::cmp::Ordering::Greater => 2,
        });
        // oracle: equality/order/hash agree with the (id, generation) pair
        let pa = (args[0] as u32, (args[0] >> 32) as u32);
        let pb = (args[1] as u32, (args[1] >> 32) as u32);
        #[allow(clippy::nonminimal_bool)]
        if (a != b) == (a == b) || (a != b) != (pa != pb) || (b == a) != (a == b) || (a < b) != (pa < pb) || (a >= b) != (pa >= pb) {
            out.flag("!= / == / < / >= on handles disagree with each other or with the (id, generation) pair");
        }
        if (a == b) != (pa == pb) {
            out.flag("== disagrees with (id, generation) equality");
        }
        if a.cmp(&b) != pa.cmp(&pb) || a.partial_cmp(&b) != Some(pa.cmp(&pb)) {
            out.flag("cmp disagrees with lexicographic (id, generation)");
        }
        if pa == pb && (h1(&a) != h1(&b) || h2(&a) != h2(&b)) {
            out.flag("equal handles hash differently");
        }
        if pa != pb && h1(&a) == h1(&b) && h2(&a) == h2(&b) {
            out.flag("distinct handles collide under both hashers");
        }
    }
}
