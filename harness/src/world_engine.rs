//! Engine 1: scripts of world operations over two worlds (protocol: coq/Model/WorldRun.v).
//! Besides printing the observations the model predicts, it judges the implementation on its own:
//! a spec-level shadow map (C01/C09/C16), issued-handle sets (C02) and a drop ledger (C03).
use crate::comps::*;
use crate::gen_tuples::*;
use crate::{with_comp, Out};
use hecs::*;
use std::collections::{BTreeMap, HashMap, HashSet};
use std::panic::{catch_unwind, AssertUnwindSafe};

pub fn nohandle() -> Entity {
    Entity::from_bits((0xFFFF_FFFFu64 << 32) | 200).unwrap()
}
pub const MAX_AT_ID: u32 = 4096;

pub struct Rd<'a> {
    pub a: &'a [u64],
    pub p: usize,
}
impl<'a> Rd<'a> {
    pub fn next(&mut self) -> u64 {
        let x = self.a.get(self.p).copied().unwrap_or(0);
        self.p += 1;
        x
    }
    pub fn done(&self) -> bool {
        self.p >= self.a.len()
    }
    pub fn take(&mut self, n: usize) -> Vec<u64> {
        (0..n).map(|_| self.next()).collect()
    }
}

pub fn panic_class(e: &Box<dyn std::any::Any + Send>) -> (u64, String) {
    let msg = e
        .downcast_ref::<String>()
        .cloned()
        .or_else(|| e.downcast_ref::<&str>().map(|s| s.to_string()))
        .unwrap_or_default();
    let c = if msg.contains("duplicate") {
        1
    } else if msg.contains("flush() needs") {
        2
    } else if msg.contains("too many entities") {
        4
    } else if msg.contains("unsorted") {
        6
    } else if msg.contains("more than once") || msg.contains("must match number") {
        5
    } else {
        3
    };
    (c, msg)
}

#[derive(Default)]
pub struct Shadow {
    pub ents: BTreeMap<u64, BTreeMap<u64, u64>>,
    pub reserved: Vec<u64>,
    pub issued: HashSet<u64>,
    pub tainted: HashSet<u32>,
}
impl Shadow {
    pub fn materialise_pub(&mut self) {
        self.materialise()
    }
    fn materialise(&mut self) {
        for h in self.reserved.drain(..) {
            self.ents.insert(h, BTreeMap::new());
        }
    }
    fn remove_id(&mut self, id: u32) {
        let ks: Vec<u64> = self.ents.keys().copied().filter(|k| *k as u32 == id).collect();
        for k in ks {
            self.ents.remove(&k);
        }
    }
}

#[derive(Clone, Copy, PartialEq, Debug)]
enum VState {
    Held,
    Returned,
    Dropped,
}

#[derive(Default)]
pub struct Ledger {
    vals: HashMap<(u64, u64), VState>,
    zst_given: [i64; NTYPES],
    zst_gone: [i64; NTYPES],
}
impl Ledger {
    pub fn give(&mut self, items: &[(u64, u64)], sizes: &[u64], out: &mut Out) {
        for &(t, v) in items {
            if sizes[t as usize] == 0 {
                self.zst_given[t as usize] += 1;
            } else if self.vals.insert((t, v), VState::Held).is_some() {
                out.flag(format!("harness: serial {v} of type {t} given twice"));
            }
        }
    }
    pub fn returned(&mut self, items: &[(u64, u64)], sizes: &[u64], out: &mut Out) {
        for &(t, v) in items {
            if sizes[t as usize] == 0 {
                self.zst_gone[t as usize] += 1;
                continue;
            }
            match self.vals.get(&(t, v)).copied() {
                Some(VState::Held) => {
                    self.vals.insert((t, v), VState::Returned);
                }
                other => out.flag(format!("C03: value {v} of type {t} handed back to the caller while {other:?}")),
            }
        }
    }
    pub fn dropped(&mut self, items: &[(u64, u64)], sizes: &[u64], out: &mut Out) {
        for &(t, v) in items {
            if sizes[t as usize] == 0 {
                self.zst_gone[t as usize] += 1;
                if self.zst_gone[t as usize] > self.zst_given[t as usize] {
                    out.flag(format!("C03: more zero-sized components of type {t} dropped than were given"));
                }
                continue;
            }
            match self.vals.get(&(t, v)).copied() {
                Some(VState::Held) => {
                    self.vals.insert((t, v), VState::Dropped);
                }
                Some(VState::Dropped) => out.flag(format!("C03: value {v} of type {t} dropped twice")),
                Some(VState::Returned) => out.flag(format!("C03: value {v} of type {t} dropped after being handed back")),
                None => out.flag(format!("C03/C04: a value {v} of type {t} that was never given was dropped")),
            }
        }
    }
    pub fn finish(&self, out: &mut Out) {
        let mut leaked: Vec<_> = self.vals.iter().filter(|(_, s)| **s == VState::Held).map(|(k, _)| *k).collect();
        leaked.sort();
        if !leaked.is_empty() {
            out.flag(format!("C03: {} value(s) leaked (never dropped or handed back), e.g. {:?}", leaked.len(), &leaked[..leaked.len().min(4)]));
        }
        for t in 0..NTYPES {
            if self.zst_gone[t] != self.zst_given[t] {
                out.flag(format!("C03: zero-sized type {t}: {} given, {} dropped or handed back", self.zst_given[t], self.zst_gone[t]));
            }
        }
    }
}

pub struct Bundle0 {
    pub kind: u64,
    pub items: Vec<(u64, u64)>,
}

pub fn dec_bundle(r: &mut Rd) -> Bundle0 {
    let kind = r.next();
    let n = r.next() as usize;
    let mut items = Vec::new();
    for _ in 0..n {
        let t = r.next();
        let v = r.next();
        items.push((t, v));
    }
    Bundle0 { kind, items }
}

pub fn builder_from(items: &[(u64, u64)]) -> EntityBuilder {
    let mut b = EntityBuilder::new();
    for &(t, v) in items {
        with_comp!(t, C, {
            b.add(C::new(v));
        });
    }
    b
}

pub struct Engine {
    pub sizes: Vec<u64>,
    pub worlds: Vec<Option<World>>,
    pub poisoned: Vec<bool>,
    pub handles: Vec<Entity>,
    pub shadow: Vec<Shadow>,
    pub ledger: Ledger,
    pub prepared: HashMap<u64, Box<dyn std::any::Any>>,
    pub eb: Vec<EntityBuilder>,
    pub ebc: Vec<EntityBuilderClone>,
    pub built: Vec<Option<BuiltEntityClone>>,
    pub batch: Vec<Option<(ColumnBatchBuilder, u32)>>,
    pub cmd: Vec<CommandBuffer>,
    pub cmd_spawns: Vec<usize>,
    pub cmd_counts: Vec<usize>,
    /// a recorded command names a component type twice (its replay may panic, legitimately)
    pub cmd_invalid: Vec<bool>,
    pub guards: crate::guard_engine::Guards,
}

struct SpawnV<'a>(&'a mut World, &'a [u64]);
impl TupleVisitor for SpawnV<'_> {
    type Out = Entity;
    fn visit<B: TupleB>(self) -> Entity {
        self.0.spawn(B::from_vals(self.1))
    }
}
struct SpawnAtV<'a>(&'a mut World, Entity, &'a [u64]);
impl TupleVisitor for SpawnAtV<'_> {
    type Out = ();
    fn visit<B: TupleB>(self) {
        self.0.spawn_at(self.1, B::from_vals(self.2))
    }
}
struct InsertV<'a>(&'a mut World, Entity, &'a [u64]);
impl TupleVisitor for InsertV<'_> {
    type Out = Result<(), NoSuchEntity>;
    fn visit<B: TupleB>(self) -> Self::Out {
        self.0.insert(self.1, B::from_vals(self.2))
    }
}
struct RemoveV<'a>(&'a mut World, Entity);
impl TupleVisitor for RemoveV<'_> {
    type Out = Result<Vec<(u64, u64)>, ComponentError>;
    fn visit<B: TupleB>(self) -> Self::Out {
        let b = self.0.remove::<B>(self.1)?;
        let n = drops_len();
        let v = b.into_vals();
        truncate_drops(n);
        Ok(v)
    }
}
struct ReserveV<'a>(&'a mut World, u32);
impl TupleVisitor for ReserveV<'_> {
    type Out = ();
    fn visit<B: TupleB>(self) {
        self.0.reserve::<B>(self.1)
    }
}
struct BatchV<'a>(&'a mut World, &'a [Vec<u64>]);
impl TupleVisitor for BatchV<'_> {
    type Out = Vec<Entity>;
    fn visit<B: TupleB>(self) -> Vec<Entity> {
        let items: Vec<B> = self.1.iter().map(|v| B::from_vals(v)).collect();
        let n = items.len();
        drain_handles(self.0.spawn_batch(items), n, "spawn_batch")
    }
}
/// One jump over `j` handles before a batch iterator is dropped (`nth`, which `skip` and `step_by` go through): what
/// is left afterwards must be `j + 1` fewer, and the handle received must be a new one
fn skip_some<I: Iterator<Item = Entity> + ExactSizeIterator>(it: &mut I, got: &[Entity], j: usize, what: &str) {
    let before = it.len();
    let x = it.nth(j);
    let ok = match x {
        Some(h) => before > j && it.len() == before - j - 1 && !got.contains(&h),
        None => before <= j && it.len() == 0,
    };
    if !ok {
        note(format!("C12: {what}: {before} handles were left, nth({j}) gave {:?} and left {}", x, it.len()));
    }
}

/// spawn_batch whose iterator is dropped after `take` handles: Drop spawns the rest
struct BatchPartV<'a>(&'a mut World, &'a [Vec<u64>], usize);
impl TupleVisitor for BatchPartV<'_> {
    type Out = Vec<Entity>;
    fn visit<B: TupleB>(self) -> Vec<Entity> {
        let items: Vec<B> = self.1.iter().map(|v| B::from_vals(v)).collect();
        let mut it = self.0.spawn_batch(items);
        let mut got = Vec::new();
        for _ in 0..self.2 {
            match it.next() {
                Some(h) => got.push(h),
                None => break,
            }
        }
        skip_some(&mut it, &got, self.2 % 3, "spawn_batch");
        drop(it);
        got
    }
}
#[derive(Clone, PartialEq, Debug)]
struct Xa(u32);
#[derive(Clone, PartialEq, Debug)]
struct Xb(u64);
#[derive(Clone, PartialEq, Debug)]
struct Xc(u8);

/// `Extend` / `FromIterator` with dynamic bundles of ONE Rust type but different component sets (a world of its own):
/// every item must arrive with exactly its own components
fn extend_dynamic_side(collect: bool) {
    let r = catch_unwind(AssertUnwindSafe(|| {
        let mut b = EntityBuilderClone::new();
        b.add(Xa(1)).add(Xb(2));
        let b1 = b.build();
        let mut b = EntityBuilderClone::new();
        b.add(Xa(3));
        let b2 = b.build();
        let mut b = EntityBuilderClone::new();
        b.add(Xc(6)).add(Xa(4)).add(Xb(5));
        let b3 = b.build();
        let items = vec![&b1, &b2, &b3, &b1, &b2];
        let side: World = if collect {
            items.into_iter().collect()
        } else {
            let mut w = World::new();
            w.spawn((Xb(9),));
            w.extend(items);
            w
        };
        let mut seen: Vec<(usize, Option<u32>, Option<u64>, Option<u8>)> = side
            .iter()
            .map(|e| (e.component_types().count(), e.get::<&Xa>().map(|x| x.0), e.get::<&Xb>().map(|x| x.0), e.get::<&Xc>().map(|x| x.0)))
            .collect();
        seen.sort();
        seen
    }));
    let mut want = vec![
        (2, Some(1), Some(2), None),
        (1, Some(3), None, None),
        (3, Some(4), Some(5), Some(6)),
        (2, Some(1), Some(2), None),
        (1, Some(3), None, None),
    ];
    if !collect {
        want.push((1, None, Some(9), None));
    }
    want.sort();
    match r {
        Ok(seen) if seen == want => {}
        Ok(seen) => note(format!("C10: Extend / FromIterator with dynamic bundles of different component sets: entities are {:?}, expected {:?}", seen, want)),
        Err(_) => note("C10: Extend / FromIterator with dynamic bundles of different component sets panicked".to_string()),
    }
}

/// Extend<B> for World
struct ExtendV<'a>(&'a mut World, &'a [Vec<u64>]);
impl TupleVisitor for ExtendV<'_> {
    type Out = ();
    fn visit<B: TupleB>(self) {
        let items: Vec<B> = self.1.iter().map(|v| B::from_vals(v)).collect();
        extend_dynamic_side(items.len() % 2 == 0);
        self.0.extend(items);
    }
}
// exchange::<S, T>: outer visitor over S, inner over T (or a dynamic bundle)
struct ExOuter<'a>(&'a mut World, Entity, &'a Bundle0);
struct ExInner<'a, S>(&'a mut World, Entity, &'a [u64], std::marker::PhantomData<S>);
impl<S: TupleB> TupleVisitor for ExInner<'_, S> {
    type Out = Result<Vec<(u64, u64)>, ComponentError>;
    fn visit<B: TupleB>(self) -> Self::Out {
        let s = self.0.exchange::<S, B>(self.1, B::from_vals(self.2))?;
        let n = drops_len();
        let v = s.into_vals();
        truncate_drops(n);
        Ok(v)
    }
}
impl TupleVisitor for ExOuter<'_> {
    type Out = Option<Result<Vec<(u64, u64)>, ComponentError>>;
    fn visit<S: TupleB>(self) -> Self::Out {
        let b = self.2;
        if b.kind == 0 {
            let types: Vec<u64> = b.items.iter().map(|x| x.0).collect();
            let vals: Vec<u64> = b.items.iter().map(|x| x.1).collect();
            dispatch_ext(&types, ExInner::<S>(self.0, self.1, &vals, std::marker::PhantomData))
        } else {
            let mut eb = builder_from(&b.items);
            Some(self.0.exchange::<S, _>(self.1, eb.build()).map(|s| {
                let n = drops_len();
                let v = s.into_vals();
                truncate_drops(n);
                v
            }))
        }
    }
}

fn sorted_drops() -> Vec<(u64, u64)> {
    let mut d = drain_drops();
    d.sort();
    d
}

/// the two worlds of a script: every other script gets them from `Default` (what `mem::take` leaves behind) instead of `new`
fn fresh_worlds() -> Vec<Option<World>> {
    static N: std::sync::atomic::AtomicUsize = std::sync::atomic::AtomicUsize::new(0);
    if N.fetch_add(1, std::sync::atomic::Ordering::Relaxed) % 2 == 0 {
        vec![Some(World::new()), Some(World::new())]
    } else {
        vec![Some(World::default()), Some(World::default())]
    }
}

impl Engine {
    pub fn new() -> Self {
        Engine {
            sizes: universe().iter().map(|x| x.1).collect(),
            worlds: fresh_worlds(),
            poisoned: vec![false, false],
            handles: Vec::new(),
            shadow: vec![Shadow::default(), Shadow::default()],
            ledger: Ledger::default(),
            prepared: HashMap::new(),
            eb: (0..4).map(|_| EntityBuilder::new()).collect(),
            ebc: (0..4).map(|_| EntityBuilderClone::new()).collect(),
            built: (0..4).map(|_| None).collect(),
            batch: (0..4).map(|_| None).collect(),
            cmd: (0..2).map(|_| CommandBuffer::new()).collect(),
            cmd_spawns: vec![0, 0],
            cmd_counts: vec![0, 0],
            cmd_invalid: vec![false, false],
            guards: Default::default(),
        }
    }

    pub fn href(&self, r: &mut Rd) -> Entity {
        let k = r.next();
        let x = r.next();
        if k == 0 {
            self.handles.get(x as usize).copied().unwrap_or(nohandle())
        } else {
            Entity::from_bits(x).unwrap_or(Entity::DANGLING)
        }
    }

    pub fn live_pub(&self, w: usize) -> bool {
        self.live(w)
    }
    pub fn issue_pub(&mut self, w: usize, h: Entity, out: &mut Out) {
        self.issue(w, h, out)
    }
    pub fn emit_pub(&mut self, obs: &mut Vec<u64>, code: u64, ret: &[u64], out: &mut Out) {
        self.emit(obs, code, ret, out)
    }
    pub fn zvals_pub(&self, items: &[(u64, u64)]) -> Vec<(u64, u64)> {
        self.zvals(items)
    }

    fn live(&self, w: usize) -> bool {
        w < 2 && self.worlds[w].is_some() && !self.poisoned[w]
    }

    fn issue(&mut self, w: usize, h: Entity, out: &mut Out) {
        let bits: u64 = h.to_bits().into();
        let sh = &mut self.shadow[w];
        if !sh.tainted.contains(&h.id()) && !sh.issued.insert(bits) {
            out.flag(format!("C02: handle {:?} was returned by a spawn-like call although the world had returned it before", h));
        }
        self.handles.push(h);
    }

    fn emit(&mut self, obs: &mut Vec<u64>, code: u64, ret: &[u64], out: &mut Out) {
        for (t, a) in take_misaligned() {
            out.flag(format!("C04: a component of type {t} was dropped in place at the misaligned address {a:#x}"));
        }
        for n in take_notes() {
            out.flag(n);
        }
        let d = sorted_drops();
        self.ledger.dropped(&d, &self.sizes.clone(), out);
        obs.push(code);
        obs.push(ret.len() as u64);
        obs.extend_from_slice(ret);
        obs.push(d.len() as u64);
        for (t, v) in d {
            obs.push(t);
            obs.push(v);
        }
    }

    fn register_clones(&mut self, out: &mut Out) {
        let c = drain_clones();
        let sizes = self.sizes.clone();
        self.ledger.give(&c, &sizes, out);
    }

    fn zvals(&self, items: &[(u64, u64)]) -> Vec<(u64, u64)> {
        items.iter().map(|&(t, v)| (t, if self.sizes[t as usize] == 0 { 0 } else { v })).collect()
    }

    /// skip the arguments of an operation aimed at a world that is gone
    fn skip(&self, opc: u64, r: &mut Rd) -> usize {
        match opc {
            1 => {
                dec_bundle(r);
                return 1;
            }
            2 | 3 => {
                self.href(r);
                dec_bundle(r);
                return if opc == 2 { 1 } else { 0 };
            }
            4 | 24 => {
                self.href(r);
                if opc == 24 {
                    r.next();
                }
                let k = r.next() as usize;
                r.take(k);
            }
            5 | 25 => {
                self.href(r);
                if opc == 25 {
                    r.next();
                }
                let k = r.next() as usize;
                r.take(k);
                dec_bundle(r);
            }
            6 | 7 | 8 => {
                self.href(r);
                return if opc == 8 { 1 } else { 0 };
            }
            10 => return 1,
            11 => {
                return r.next() as usize;
            }
            13 => {
                let k = r.next() as usize;
                r.take(k);
                r.next();
            }
            14 | 15 | 17 | 18 | 19 => {
                if opc >= 18 {
                    r.next();
                }
                let k = r.next() as usize;
                r.take(k);
                let n = r.next() as usize;
                r.take(n * k);
                return n;
            }
            16 => {
                let k = r.next() as usize;
                r.take(k);
                let n = r.next() as usize;
                for _ in 0..n {
                    self.href(r);
                }
                r.take(n * k);
                return n;
            }
            _ => {}
        }
        0
    }

    fn make_batch(types: &[u64], rows: &[Vec<u64>]) -> Result<ColumnBatch, BatchIncomplete> {
        let mut ty = ColumnBatchType::new();
        for &t in types {
            with_comp!(t, C, {
                ty.add::<C>();
            });
        }
        let mut b = ty.into_batch(rows.len() as u32);
        for (k, &t) in types.iter().enumerate() {
            with_comp!(t, C, {
                let mut w = b.writer::<C>().unwrap();
                for (i, row) in rows.iter().enumerate() {
                    // the first writer of a type has room for every row (a repeated type finds its column full)
                    if w.push(C::new(row[k])).is_err() && !types[..k].contains(&t) {
                        note(format!("C12: the writer of column {t} refused value {i} of {} although the column was empty before", rows.len()));
                    }
                }
            });
        }
        b.build()
    }

    pub fn op(&mut self, opc: u64, r: &mut Rd, out: &mut Out) -> Vec<u64> {
        let mut obs = Vec::new();
        if (50..=86).contains(&opc) {
            let o = self.cont_op(opc, r, out);
            self.register_clones(out);
            return o;
        }
        if opc == 90 {
            return self.serde_op(r, out);
        }
        if (100..=116).contains(&opc) {
            return self.guard_op(opc, r, out);
        }
        if opc == 23 {
            return self.layout_probe(out);
        }
        if opc == 22 {
            // drop every container
            self.eb = (0..4).map(|_| EntityBuilder::new()).collect();
            self.ebc = (0..4).map(|_| EntityBuilderClone::new()).collect();
            self.built = (0..4).map(|_| None).collect();
            self.batch = (0..4).map(|_| None).collect();
            self.cmd = (0..2).map(|_| CommandBuffer::new()).collect();
            self.cmd_spawns = vec![0, 0];
            self.cmd_invalid = vec![false, false];
            self.cmd_counts = vec![0, 0];
            self.emit(&mut obs, 0, &[], out);
            return obs;
        }
        let w = r.next() as usize;
        if opc == 20 {
            // probe: `w` is the number of handle references
            let hs: Vec<Entity> = (0..w).map(|_| self.href(r)).collect();
            self.probe(&hs, &mut obs, out);
            return obs;
        }
        if opc == 30 {
            let (qidx, path, arg) = (r.next(), r.next(), r.next());
            let n = r.next() as usize;
            let ast = r.take(n);
            if !self.live(w) {
                return vec![8];
            }
            let hs: Vec<Entity> = if self.handles.len() <= 16 {
                self.handles.clone()
            } else {
                let mut v = self.handles[..4].to_vec();
                v.extend_from_slice(&self.handles[self.handles.len() - 12..]);
                v
            };
            let world = self.worlds[w].as_mut().unwrap();
            let res = catch_unwind(AssertUnwindSafe(|| crate::query_engine::run_query_op(world, qidx, path, arg, &ast, &hs, &mut self.prepared, out)));
            return match res {
                Ok(o) => o,
                Err(e) => {
                    out.flag(format!("C08: query path {path} panicked: {}", panic_class(&e).1));
                    vec![97]
                }
            };
        }
        if opc == 21 {
            if w >= 2 || self.worlds[w].is_none() {
                return vec![8];
            }
            // no guard may outlive its world
            for s in self.guards.slots.iter_mut() {
                if s.world == w {
                    s.obj = None;
                    s.kind = 0;
                }
            }
            let world = self.worlds[w].take();
            drop(world);
            self.shadow[w] = Shadow::default();
            self.emit(&mut obs, 0, &[], out);
            return obs;
        }
        if !self.live(w) {
            let k = self.skip(opc, r);
            for _ in 0..k {
                self.handles.push(nohandle());
            }
            return vec![8];
        }
        let sizes = self.sizes.clone();
        match opc {
            1 => {
                let b = dec_bundle(r);
                self.ledger.give(&b.items, &sizes, out);
                self.shadow[w].materialise();
                let world = self.worlds[w].as_mut().unwrap();
                let res = catch_unwind(AssertUnwindSafe(|| {
                    if b.kind == 0 || b.kind >= 10 {
                        let types: Vec<u64> = b.items.iter().map(|x| x.0).collect();
                        let vals: Vec<u64> = b.items.iter().map(|x| x.1).collect();
                        crate::derived::dispatch_bundle(b.kind, &types, SpawnV(world, &vals)).expect("tuple type not in catalogue")
                    } else {
                        let mut eb = builder_from(&b.items);
                        world.spawn(eb.build())
                    }
                }));
                match res {
                    Ok(h) => {
                        let z = self.zvals(&b.items);
                        self.shadow[w].ents.insert(h.to_bits().into(), z.into_iter().collect());
                        self.issue(w, h, out);
                        self.emit(&mut obs, 0, &[h.to_bits().into()], out);
                    }
                    Err(e) => {
                        self.poisoned[w] = true;
                        self.handles.push(nohandle());
                        self.emit(&mut obs, 9, &[panic_class(&e).0], out);
                    }
                }
            }
            2 => {
                let h = self.href(r);
                let b = dec_bundle(r);
                if h.id() > MAX_AT_ID {
                    self.handles.push(h);
                    return vec![8];
                }
                self.ledger.give(&b.items, &sizes, out);
                self.shadow[w].materialise();
                let world = self.worlds[w].as_mut().unwrap();
                let res = catch_unwind(AssertUnwindSafe(|| {
                    if b.kind == 0 || b.kind >= 10 {
                        let types: Vec<u64> = b.items.iter().map(|x| x.0).collect();
                        let vals: Vec<u64> = b.items.iter().map(|x| x.1).collect();
                        crate::derived::dispatch_bundle(b.kind, &types, SpawnAtV(world, h, &vals)).expect("tuple type not in catalogue")
                    } else {
                        let mut eb = builder_from(&b.items);
                        world.spawn_at(h, eb.build())
                    }
                }));
                match res {
                    Ok(()) => {
                        let z = self.zvals(&b.items);
                        let sh = &mut self.shadow[w];
                        sh.remove_id(h.id());
                        sh.tainted.insert(h.id());
                        sh.ents.insert(h.to_bits().into(), z.into_iter().collect());
                        self.handles.push(h);
                        self.emit(&mut obs, 0, &[], out);
                    }
                    Err(e) => {
                        self.poisoned[w] = true;
                        self.handles.push(h);
                        self.emit(&mut obs, 9, &[panic_class(&e).0], out);
                    }
                }
            }
            3 => {
                let h = self.href(r);
                let b = dec_bundle(r);
                self.ledger.give(&b.items, &sizes, out);
                self.shadow[w].materialise();
                let world = self.worlds[w].as_mut().unwrap();
                let res = catch_unwind(AssertUnwindSafe(|| {
                    if b.kind == 0 && b.items.len() == 1 && b.items[0].1 % 2 == 1 {
                        // the single-component wrapper (same bundle type (T,))
                        let (t, v) = b.items[0];
                        let mut res = Ok(());
                        with_comp!(t, C, {
                            res = world.insert_one(h, C::new(v));
                        });
                        res
                    } else if b.kind == 0 || b.kind >= 10 {
                        let types: Vec<u64> = b.items.iter().map(|x| x.0).collect();
                        let vals: Vec<u64> = b.items.iter().map(|x| x.1).collect();
                        crate::derived::dispatch_bundle(b.kind, &types, InsertV(world, h, &vals)).expect("tuple type not in catalogue")
                    } else {
                        let mut eb = builder_from(&b.items);
                        world.insert(h, eb.build())
                    }
                }));
                match res {
                    Ok(Ok(())) => {
                        let z = self.zvals(&b.items);
                        match self.shadow[w].ents.get_mut(&h.to_bits().into()) {
                            Some(m) => m.extend(z),
                            None => out.flag(format!("C09: insert on {:?} succeeded but the entity does not exist", h)),
                        }
                        self.emit(&mut obs, 0, &[], out);
                    }
                    Ok(Err(NoSuchEntity)) => {
                        if self.shadow[w].ents.contains_key(&h.to_bits().into()) {
                            out.flag(format!("C09: insert on live {:?} reported NoSuchEntity", h));
                        }
                        self.emit(&mut obs, 1, &[], out);
                    }
                    Err(e) => {
                        self.poisoned[w] = true;
                        self.emit(&mut obs, 9, &[panic_class(&e).0], out);
                    }
                }
            }
            4 | 5 | 24 | 25 => {
                // 24 / 25: remove / exchange with S a derived Bundle struct (its kind follows the handle)
                let h = self.href(r);
                let skind = if opc >= 24 { r.next() } else { 0 };
                let k = r.next() as usize;
                let ts = r.take(k);
                let b = if opc == 5 || opc == 25 { Some(dec_bundle(r)) } else { None };
                if let Some(b) = &b {
                    self.ledger.give(&b.items, &sizes, out);
                }
                self.shadow[w].materialise();
                let world = self.worlds[w].as_mut().unwrap();
                let one = ts.len() == 1 && h.id() % 2 == 1 && skind == 0;
                let res = catch_unwind(AssertUnwindSafe(|| match &b {
                    None if one => {
                        // remove_one::<T> = remove::<(T,)>
                        let mut res = Ok(Vec::new());
                        with_comp!(ts[0], C, {
                            res = world.remove_one::<C>(h).map(|c| {
                                let n = drops_len();
                                let v = vec![(ts[0], c.val())];
                                drop(c);
                                truncate_drops(n);
                                v
                            });
                        });
                        res
                    }
                    Some(b) if one && b.kind == 0 && b.items.len() == 1 => {
                        // exchange_one::<S, T> = exchange::<(S,), (T,)>
                        let (t2, v2) = b.items[0];
                        let mut res = Ok(Vec::new());
                        with_comp!(ts[0], S, {
                            with_comp!(t2, T, {
                                res = world.exchange_one::<S, T>(h, T::new(v2)).map(|c| {
                                    let n = drops_len();
                                    let v = vec![(ts[0], c.val())];
                                    drop(c);
                                    truncate_drops(n);
                                    v
                                });
                            });
                        });
                        res
                    }
                    None if skind >= 10 => crate::derived::dispatch_bundle(skind, &ts, RemoveV(world, h)).expect("derived struct"),
                    Some(b) if skind >= 10 => crate::derived::dispatch_bundle(skind, &ts, ExOuter(world, h, b)).expect("derived struct").expect("T must be a builder bundle"),
                    None => dispatch_tuple(&ts, RemoveV(world, h)).expect("tuple type not in catalogue"),
                    Some(b) => dispatch_exs(&ts, ExOuter(world, h, b)).expect("S not in catalogue").expect("T not in catalogue"),
                }));
                let bits: u64 = h.to_bits().into();
                match res {
                    Ok(Ok(vals)) => {
                        self.ledger.returned(&vals, &sizes, out);
                        let zv = self.zvals(&vals);
                        match self.shadow[w].ents.get_mut(&bits) {
                            Some(m) => {
                                for (t, v) in zv {
                                    if m.remove(&t) != Some(v) {
                                        out.flag(format!("C01/C09: remove returned ({t},{v}) which {:?} did not hold", h));
                                    }
                                }
                                if let Some(b) = &b {
                                    let z: Vec<(u64, u64)> = b.items.iter().map(|&(t, v)| (t, if sizes[t as usize] == 0 { 0 } else { v })).collect();
                                    m.extend(z);
                                }
                            }
                            None => out.flag(format!("C09: remove/exchange on {:?} succeeded but the entity does not exist", h)),
                        }
                        let ret: Vec<u64> = self.zvals(&vals).iter().map(|x| x.1).collect();
                        self.emit(&mut obs, 0, &ret, out);
                    }
                    Ok(Err(ComponentError::NoSuchEntity)) => {
                        if self.shadow[w].ents.contains_key(&bits) {
                            out.flag(format!("C09: remove/exchange on live {:?} reported NoSuchEntity", h));
                        }
                        self.emit(&mut obs, 1, &[], out);
                    }
                    Ok(Err(ComponentError::MissingComponent(_))) => {
                        if let Some(m) = self.shadow[w].ents.get(&bits) {
                            if ts.iter().all(|t| m.contains_key(t)) {
                                out.flag(format!("C09: MissingComponent although {:?} has every named component", h));
                            }
                        }
                        self.emit(&mut obs, 2, &[], out);
                    }
                    Err(e) => {
                        self.poisoned[w] = true;
                        self.emit(&mut obs, 9, &[panic_class(&e).0], out);
                    }
                }
            }
            6 | 7 => {
                let h = self.href(r);
                self.shadow[w].materialise();
                let world = self.worlds[w].as_mut().unwrap();
                let res = catch_unwind(AssertUnwindSafe(|| {
                    if opc == 6 {
                        world.despawn(h)
                    } else {
                        world.take(h).map(|t| drop(t))
                    }
                }));
                let bits: u64 = h.to_bits().into();
                match res {
                    Ok(Ok(())) => {
                        if self.shadow[w].ents.remove(&bits).is_none() {
                            out.flag(format!("C02/C09: despawn/take of {:?} succeeded but no such entity exists", h));
                        }
                        self.emit(&mut obs, 0, &[], out);
                    }
                    Ok(Err(NoSuchEntity)) => {
                        if self.shadow[w].ents.contains_key(&bits) {
                            out.flag(format!("C09: despawn/take of live {:?} reported NoSuchEntity", h));
                        }
                        self.emit(&mut obs, 1, &[], out);
                    }
                    Err(e) => {
                        self.poisoned[w] = true;
                        self.emit(&mut obs, 9, &[panic_class(&e).0], out);
                    }
                }
            }
            8 => {
                let h = self.href(r);
                let w2 = 1 - w;
                if !self.live(w2) {
                    self.handles.push(nohandle());
                    return vec![8];
                }
                self.shadow[w].materialise();
                let (a, b) = self.worlds.split_at_mut(1);
                let (src, dst) = if w == 0 { (a[0].as_mut().unwrap(), b[0].as_mut().unwrap()) } else { (b[0].as_mut().unwrap(), a[0].as_mut().unwrap()) };
                let res = catch_unwind(AssertUnwindSafe(|| src.take(h).map(|t| dst.spawn(t))));
                let bits: u64 = h.to_bits().into();
                match res {
                    Ok(Ok(h2)) => {
                        self.shadow[w2].materialise();
                        match self.shadow[w].ents.remove(&bits) {
                            Some(m) => {
                                self.shadow[w2].ents.insert(h2.to_bits().into(), m);
                            }
                            None => out.flag(format!("C09: take of {:?} succeeded but no such entity exists", h)),
                        }
                        self.issue(w2, h2, out);
                        self.emit(&mut obs, 0, &[h2.to_bits().into()], out);
                    }
                    Ok(Err(NoSuchEntity)) => {
                        if self.shadow[w].ents.contains_key(&bits) {
                            out.flag(format!("C09: take of live {:?} reported NoSuchEntity", h));
                        }
                        self.handles.push(nohandle());
                        self.emit(&mut obs, 1, &[], out);
                    }
                    Err(e) => {
                        self.poisoned[w] = true;
                        self.poisoned[w2] = true;
                        self.handles.push(nohandle());
                        self.emit(&mut obs, 9, &[panic_class(&e).0], out);
                    }
                }
            }
            9 => {
                self.worlds[w].as_mut().unwrap().clear();
                let sh = &mut self.shadow[w];
                sh.ents.clear();
                sh.reserved.clear();
                sh.issued.clear();
                sh.tainted.clear();
                self.emit(&mut obs, 0, &[], out);
            }
            10 | 11 => {
                let n = if opc == 11 { r.next() as u32 } else { 1 };
                let world = self.worlds[w].as_ref().unwrap();
                let res = catch_unwind(AssertUnwindSafe(|| {
                    if opc == 10 {
                        vec![world.reserve_entity()]
                    } else {
                        drain_reserved(world.reserve_entities(n), n as usize)
                    }
                }));
                match res {
                    Ok(hs) => {
                        let world = self.worlds[w].as_ref().unwrap();
                        for h in &hs {
                            if !world.contains(*h) {
                                out.flag(format!("C07: reserved handle {:?} does not report contains() == true", h));
                            }
                        }
                        let bits: Vec<u64> = hs.iter().map(|h| h.to_bits().into()).collect();
                        for (i, b) in bits.iter().enumerate() {
                            if bits[..i].contains(b) || self.shadow[w].reserved.contains(b) || self.shadow[w].ents.contains_key(b) {
                                out.flag(format!("C07: reserved handle {:?} is not distinct from live or reserved entities", hs[i]));
                            }
                        }
                        for h in hs {
                            self.shadow[w].reserved.push(h.to_bits().into());
                            self.issue(w, h, out);
                        }
                        self.emit(&mut obs, 0, &bits, out);
                    }
                    Err(e) => {
                        self.poisoned[w] = true;
                        for _ in 0..n {
                            self.handles.push(nohandle());
                        }
                        self.emit(&mut obs, 9, &[panic_class(&e).0], out);
                    }
                }
            }
            12 => {
                self.shadow[w].materialise();
                self.worlds[w].as_mut().unwrap().flush();
                self.emit(&mut obs, 0, &[], out);
            }
            13 => {
                let k = r.next() as usize;
                let ts = r.take(k);
                let n = r.next() as u32;
                self.shadow[w].materialise();
                let world = self.worlds[w].as_mut().unwrap();
                let res = catch_unwind(AssertUnwindSafe(|| dispatch_tuple(&ts, ReserveV(world, n)).expect("tuple type not in catalogue")));
                match res {
                    Ok(()) => self.emit(&mut obs, 0, &[], out),
                    Err(e) => {
                        self.poisoned[w] = true;
                        self.emit(&mut obs, 9, &[panic_class(&e).0], out);
                    }
                }
            }
            17 | 18 | 19 => {
                // 17: Extend; 18 / 19: spawn_batch / spawn_column_batch with the iterator dropped after `take` handles
                let take = if opc >= 18 { r.next() as usize } else { 0 };
                let k = r.next() as usize;
                let ts = r.take(k);
                let n = r.next() as usize;
                let rows: Vec<Vec<u64>> = (0..n).map(|_| r.take(k)).collect();
                let all: Vec<(u64, u64)> = rows.iter().flat_map(|row| ts.iter().copied().zip(row.iter().copied())).collect();
                self.ledger.give(&all, &sizes, out);
                // reservations that the call flushes into real entities were not spawned by it
                let mut before: HashSet<u64> = self.shadow[w].reserved.iter().copied().collect();
                if opc != 17 || n > 0 {
                    // Extend over no rows never calls spawn, hence never flushes
                    self.shadow[w].materialise();
                }
                let world = self.worlds[w].as_mut().unwrap();
                before.extend(world.iter().map(|e| -> u64 { e.entity().to_bits().into() }));
                let res = catch_unwind(AssertUnwindSafe(|| match opc {
                    17 => {
                        dispatch_tuple(&ts, ExtendV(world, &rows)).expect("tuple type not in catalogue");
                        Vec::new()
                    }
                    18 => dispatch_tuple(&ts, BatchPartV(world, &rows, take)).expect("tuple type not in catalogue"),
                    _ => {
                        let b = Self::make_batch(&ts, &rows).expect("complete batch");
                        let mut it = world.spawn_column_batch(b);
                        let mut got = Vec::new();
                        for _ in 0..take {
                            match it.next() {
                                Some(h) => got.push(h),
                                None => break,
                            }
                        }
                        skip_some(&mut it, &got, take % 3, "spawn_column_batch");
                        drop(it);
                        got
                    }
                }));
                match res {
                    Ok(got) => {
                        // the handles the caller did not receive: found by iteration, appended sorted by bits
                        let world = self.worlds[w].as_ref().unwrap();
                        let known: HashSet<u64> = got.iter().map(|h| h.to_bits().into()).collect();
                        let mut rest: Vec<Entity> = world
                            .iter()
                            .map(|e| e.entity())
                            .filter(|h| !before.contains(&h.to_bits().into()) && !known.contains(&h.to_bits().into()))
                            .collect();
                        rest.sort_by_key(|h| -> u64 { h.to_bits().into() });
                        if got.len() + rest.len() != n {
                            out.flag(format!("C01/C12: {n} rows were given but {} new entities exist", got.len() + rest.len()));
                        }
                        // which row each new entity holds: read back its first sized component, else by order
                        let order: Vec<Entity> = got.iter().copied().chain(rest.iter().copied()).collect();
                        for h in &order {
                            // the shadow map is re-read from the world for these entities (their row is not known
                            // to the caller); the model comparison of the probes judges the values
                            let er = world.entity(*h).unwrap();
                            let mut items = Vec::new();
                            for t in 0..NTYPES as u64 {
                                with_comp!(t, C, {
                                    if let Some(c) = er.get::<&C>() {
                                        items.push((t, if sizes[t as usize] == 0 { 0 } else { c.val() }));
                                    }
                                });
                            }
                            self.shadow[w].ents.insert(h.to_bits().into(), items.into_iter().collect());
                        }
                        for h in &order {
                            self.issue(w, *h, out);
                        }
                        let bits: Vec<u64> = if opc == 17 { vec![order.len() as u64] } else { got.iter().map(|h| h.to_bits().into()).collect() };
                        self.emit(&mut obs, 0, &bits, out);
                    }
                    Err(e) => {
                        self.poisoned[w] = true;
                        for _ in 0..n {
                            self.handles.push(nohandle());
                        }
                        self.emit(&mut obs, 9, &[panic_class(&e).0], out);
                    }
                }
            }
            14 | 15 | 16 => {
                let k = r.next() as usize;
                let ts = r.take(k);
                let n = r.next() as usize;
                let hs: Vec<Entity> = if opc == 16 { (0..n).map(|_| self.href(r)).collect() } else { Vec::new() };
                let rows: Vec<Vec<u64>> = (0..n).map(|_| r.take(k)).collect();
                if opc == 16 && hs.iter().any(|h| h.id() > MAX_AT_ID) {
                    self.handles.extend(hs);
                    return vec![8];
                }
                let all: Vec<(u64, u64)> = rows.iter().flat_map(|row| ts.iter().copied().zip(row.iter().copied())).collect();
                self.ledger.give(&all, &sizes, out);
                self.shadow[w].materialise();
                let world = self.worlds[w].as_mut().unwrap();
                let res = catch_unwind(AssertUnwindSafe(|| match opc {
                    14 => dispatch_tuple(&ts, BatchV(world, &rows)).expect("tuple type not in catalogue"),
                    15 => {
                        let b = Self::make_batch(&ts, &rows).expect("complete batch");
                        drain_handles(world.spawn_column_batch(b), rows.len(), "spawn_column_batch")
                    }
                    _ => {
                        let b = Self::make_batch(&ts, &rows).expect("complete batch");
                        world.spawn_column_batch_at(&hs, b);
                        hs.clone()
                    }
                }));
                match res {
                    Ok(got) => {
                        if got.len() != n {
                            out.flag(format!("C12: batch of {n} rows spawned {} entities", got.len()));
                        }
                        for (i, h) in got.iter().enumerate() {
                            let items: Vec<(u64, u64)> = ts.iter().copied().zip(rows.get(i).cloned().unwrap_or_default()).collect();
                            let z = self.zvals(&items);
                            if opc == 16 {
                                self.shadow[w].remove_id(h.id());
                                self.shadow[w].tainted.insert(h.id());
                                self.handles.push(*h);
                            }
                            self.shadow[w].ents.insert(h.to_bits().into(), z.into_iter().collect());
                            if opc != 16 {
                                self.issue(w, *h, out);
                            }
                        }
                        let bits: Vec<u64> = if opc == 16 { vec![] } else { got.iter().map(|h| h.to_bits().into()).collect() };
                        self.emit(&mut obs, 0, &bits, out);
                    }
                    Err(e) => {
                        self.poisoned[w] = true;
                        if opc == 16 {
                            self.handles.extend(hs.iter().copied());
                        } else {
                            for _ in 0..n {
                                self.handles.push(nohandle());
                            }
                        }
                        self.emit(&mut obs, 9, &[panic_class(&e).0], out);
                    }
                }
            }
            _ => {}
        }
        obs
    }

    /// opcode 23: archetype capacities (read off the tracked allocation behind the entity-id array)
    /// plus the layout oracle: every component reference is aligned, lies with its whole column
    /// inside one live allocation, and rows are laid out at the element stride
    fn layout_probe(&mut self, out: &mut Out) -> Vec<u64> {
        let mut obs = Vec::new();
        for w in 0..2 {
            if !self.live(w) {
                obs.push(7);
                continue;
            }
            let world = self.worlds[w].as_ref().unwrap();
            obs.push(5);
            obs.push(world.archetypes().len() as u64);
            for a in world.archetypes() {
                let p = a.ids().as_ptr() as usize;
                let cap = crate::alloc_track::block_of(p, 4).map_or(0, |(s, sz)| if s == p { sz / 4 } else { 0 });
                obs.push(cap as u64);
                let mut bases: Vec<(usize, u64)> = Vec::new();
                if (a.len() as usize) > cap {
                    out.flag(format!("C04: archetype holds {} entities but its id array has room for {cap}", a.len()));
                }
                for t in 0..NTYPES as u64 {
                    with_comp!(t, C, {
                        if let Some(col) = a.get::<&C>() {
                            let size = std::mem::size_of::<C>();
                            let align = std::mem::align_of::<C>();
                            let base = std::hint::black_box(col.as_ptr() as usize);
                            if base % align != 0 {
                                out.flag(format!("C04: column of type {t} starts at misaligned address {base:#x}"));
                            }
                            for (i, c) in col.iter().enumerate() {
                                let addr = std::hint::black_box(c as *const C as usize);
                                if addr != base + i * size {
                                    out.flag(format!("C04: row {i} of column {t} is not at base + i * size"));
                                }
                            }
                            if size > 0 && !col.is_empty() {
                                if let Some((_, t2)) = bases.iter().find(|(b, _)| *b == base) {
                                    out.flag(format!("C04: columns {t2} and {t} share the base address {base:#x}"));
                                }
                                bases.push((base, t));
                                match crate::alloc_track::block_of(base, size * col.len()) {
                                    None => out.flag(format!("C04: column of type {t} ({} rows) does not lie inside one live allocation", col.len())),
                                    Some((s, sz)) => {
                                        if s != base || sz != size * cap {
                                            out.flag(format!("C04: column of type {t}: allocation of {sz} bytes at offset {} for capacity {cap} x {size}", base - s));
                                        }
                                    }
                                }
                            }
                        }
                    });
                }
            }
        }
        for v in crate::alloc_track::take_violations() {
            out.flag(format!("C04: allocator contract: {v}"));
        }
        obs
    }

    fn probe(&mut self, hs: &[Entity], obs: &mut Vec<u64>, out: &mut Out) {
        for w in 0..2 {
            if !self.live(w) {
                obs.push(7);
                continue;
            }
            obs.push(5);
            let sizes = self.sizes.clone();
            let world = self.worlds[w].as_mut().unwrap();
            let mut ents: Vec<(u64, Vec<(u64, u64)>)> = Vec::new();
            let mut seen_ids = HashSet::new();
            for e in world.iter() {
                let mut items = Vec::new();
                for t in 0..NTYPES as u64 {
                    with_comp!(t, C, {
                        if let Some(c) = e.get::<&C>() {
                            items.push((t, if sizes[t as usize] == 0 { 0 } else { c.val() }));
                        }
                    });
                }
                if e.len() != items.len() {
                    out.flag(format!("C01: entity {:?} reports {} components but {} are readable", e.entity(), e.len(), items.len()));
                }
                if !seen_ids.insert(e.entity().id()) {
                    out.flag(format!("C02: id {} yielded twice by iteration", e.entity().id()));
                }
                ents.push((e.entity().to_bits().into(), items));
            }
            ents.sort();
            if world.len() as usize != ents.len() {
                out.flag(format!("C02: len() = {} but iteration yields {} entities", world.len(), ents.len()));
            }
            // shadow comparison: the world is a map from handle to a set of typed values
            {
                let sh = &self.shadow[w];
                let got: BTreeMap<u64, BTreeMap<u64, u64>> = ents.iter().map(|(b, it)| (*b, it.iter().copied().collect())).collect();
                if got != sh.ents {
                    let a: Vec<_> = got.iter().filter(|(k, v)| sh.ents.get(k) != Some(v)).take(2).collect();
                    let b: Vec<_> = sh.ents.iter().filter(|(k, v)| got.get(k) != Some(v)).take(2).collect();
                    out.flag(format!("C01: world {w} differs from the map semantics: observed-only {:?}, expected-only {:?}", a, b));
                }
            }
            obs.push(world.len() as u64);
            obs.push(ents.len() as u64);
            for (b, items) in &ents {
                obs.push(*b);
                obs.push(items.len() as u64);
                for (t, v) in items {
                    obs.push(*t);
                    obs.push(*v);
                }
            }
            let rows = world.verif_archetype_rows();
            obs.push(world.archetypes().len() as u64);
            let mut type_sets = HashSet::new();
            for (i, a) in world.archetypes().enumerate() {
                let mut ts = Vec::new();
                for t in 0..NTYPES as u64 {
                    with_comp!(t, C, {
                        if a.has::<C>() {
                            ts.push(t);
                        }
                    });
                }
                if a.component_types().count() != ts.len() {
                    out.flag("harness: archetype with component types outside the universe".to_string());
                }
                if !type_sets.insert(ts.clone()) {
                    out.flag(format!("C10: two archetypes hold the same component set {:?}", ts));
                }
                obs.push(ts.len() as u64);
                obs.extend(ts);
                obs.push(a.len() as u64);
                obs.extend(rows[i].iter().map(|x| *x as u64));
                if a.ids() != &rows[i][..] {
                    out.flag("harness: ids() differs from the row snapshot".to_string());
                }
            }
            let st = world.verif_entities_state();
            obs.push(st.meta.len() as u64);
            for (g, a, i) in &st.meta {
                obs.push(*g as u64);
                obs.push(*a as u64);
                obs.push(*i as u64);
            }
            obs.push(st.pending.len() as u64);
            obs.extend(st.pending.iter().map(|x| *x as u64));
            obs.push((st.free_cursor < 0) as u64);
            obs.push(st.free_cursor.unsigned_abs() as u64);
        }
        for &h in hs {
            for w in 0..2 {
                if !self.live(w) {
                    obs.push(7);
                    continue;
                }
                let sizes = self.sizes.clone();
                let world = self.worlds[w].as_ref().unwrap();
                let bits: u64 = h.to_bits().into();
                let sh = &self.shadow[w];
                let c = world.contains(h);
                obs.push(c as u64);
                let expect = sh.ents.contains_key(&bits) || sh.reserved.contains(&bits);
                if c != expect {
                    out.flag(format!("C02/C09: contains({:?}) = {c} in world {w}, map semantics say {expect}", h));
                }
                match world.entity(h) {
                    Err(_) => obs.push(0),
                    Ok(e) => {
                        obs.push(1);
                        obs.push(e.len() as u64);
                    }
                }
                // C16: per-entity accessors agree with contains
                let q1 = world.query_one::<()>(h).is_ok();
                let sat = world.satisfies::<()>(h).is_ok();
                if world.entity(h).is_ok() != c || q1 != c || sat != c {
                    out.flag(format!("C16/C09: accessors disagree on {:?}: contains={c} entity={} query_one={q1} satisfies={sat}", h, world.entity(h).is_ok()));
                }
                for t in 0..NTYPES as u64 {
                    with_comp!(t, C, {
                        match world.get::<&C>(h) {
                            Err(ComponentError::NoSuchEntity) => {
                                obs.push(0);
                                if c {
                                    out.flag(format!("C16: get on existing {:?} reports NoSuchEntity", h));
                                }
                            }
                            Err(ComponentError::MissingComponent(_)) => {
                                obs.push(1);
                                if sh.ents.get(&bits).map_or(false, |m| m.contains_key(&t)) {
                                    out.flag(format!("C01: get::<{t}>({:?}) reports MissingComponent", h));
                                }
                            }
                            Ok(x) => {
                                let v = if sizes[t as usize] == 0 { 0 } else { x.val() };
                                obs.push(2);
                                obs.push(v);
                                if sh.ents.get(&bits).and_then(|m| m.get(&t)) != Some(&v) {
                                    out.flag(format!("C01: get::<{t}>({:?}) = {v}, map semantics say {:?}", h, sh.ents.get(&bits).and_then(|m| m.get(&t))));
                                }
                            }
                        }
                    });
                }
                let vc = world.view::<()>().contains(h);
                {
                    // every random-access entry point of a view must agree with contains()
                    let mut vb = world.view::<()>();
                    let g = vb.get(h).is_some();
                    let gm = vb.get_mut(h).is_some();
                    let many = vb.get_many_mut([h])[0].is_some();
                    let mut vo = world.view::<Option<&C1>>();
                    let (oc, ogm) = (vo.contains(h), vo.get_mut(h).is_some());
                    // the single-entity query agrees with satisfies for queries the empty archetype satisfies
                    let sat = world.satisfies::<()>(h).unwrap_or(false);
                    let q1 = world.query_one::<()>(h).map(|mut q| q.get().is_some()).unwrap_or(false);
                    let q1o = world.query_one::<Option<&C1>>(h).map(|mut q| q.get().is_some()).unwrap_or(false);
                    let er = world.entity(h).map(|e| e.query::<()>().get().is_some()).unwrap_or(false);
                    if q1 != sat || q1o != sat || er != sat {
                        out.flag(format!("C16/C08: satisfies::<()>({:?}) = {sat} but query_one::<()> {q1}, query_one::<Option<&C1>> {q1o}, EntityRef::query::<()> {er}", h));
                    }
                    if g != vc || gm != vc || many != vc || oc != vc || ogm != vc {
                        out.flag(format!("C16/C08: view random access disagrees on {:?}: contains {vc}, get {g}, get_mut {gm}, get_many_mut {many}, Option view contains {oc} get_mut {ogm}", h));
                    }
                }
                obs.push(vc as u64);
                if vc != sh.ents.contains_key(&bits) {
                    out.flag(format!("C16/C08: view::<()>().contains({:?}) = {vc}, but live-and-flushed = {}", h, sh.ents.contains_key(&bits)));
                }
            }
        }
    }
}

type Canon = (Vec<BTreeMap<u64, BTreeMap<u64, u64>>>, Vec<Vec<(Vec<u64>, u32)>>);

/// runs one script; returns the canonical final state of the live worlds (for twin comparison)
fn run_script(args: &[u64], out: &mut Out) -> Canon {
    let mut r = Rd { a: args, p: 0 };
    drain_drops();
    reset_clone_serial();
    crate::alloc_track::enable(true);
    let mut eng = Engine::new();
    let mut canon: Canon = (Vec::new(), Vec::new());
    while !r.done() {
        let opc = r.next();
        if opc == 21 && canon.0.is_empty() {
            // canonical state just before the teardown starts
            for w in 0..2 {
                if eng.live(w) {
                    canon.0.push(eng.shadow[w].ents.clone());
                    let world = eng.worlds[w].as_ref().unwrap();
                    let mut archs: Vec<(Vec<u64>, u32)> = world
                        .archetypes()
                        .filter(|a| !a.is_empty())
                        .map(|a| {
                            let mut ts = Vec::new();
                            for t in 0..NTYPES as u64 {
                                with_comp!(t, C, {
                                    if a.has::<C>() {
                                        ts.push(t);
                                    }
                                });
                            }
                            (ts, a.len())
                        })
                        .collect();
                    archs.sort();
                    canon.1.push(archs);
                } else {
                    canon.0.push(BTreeMap::new());
                    canon.1.push(vec![(vec![u64::MAX], 0)]);
                }
            }
        }
        let obs = eng.op(opc, &mut r, out);
        out.push(obs.len() as u64);
        out.nums.extend(obs);
    }
    // implicit teardown for the ledger oracle (not part of the compared observations)
    let sizes = eng.sizes.clone();
    eng.guards.slots.clear();
    eng.register_clones(out);
    eng.eb.clear();
    eng.ebc.clear();
    eng.built.clear();
    eng.batch.clear();
    eng.cmd.clear();
    eng.worlds.clear();
    let d = drain_drops();
    eng.ledger.dropped(&d, &sizes, out);
    eng.ledger.finish(out);
    drop(eng);
    for v in crate::alloc_track::take_violations() {
        out.flag(format!("C04: allocator contract: {v}"));
    }
    crate::alloc_track::enable(false);
    canon
}

fn check_universe(r: &mut Rd, out: &mut Out) {
    // the universe is fixed by the harness; the case repeats it for the model's benefit
    let n = r.next() as usize;
    let uni = universe();
    for i in 0..n {
        let (a, s, k) = (r.next(), r.next(), r.next());
        if i >= uni.len() || uni[i] != (a, s, k) {
            out.flag("harness: case universe differs from the compiled universe (regenerate cases)".to_string());
        }
    }
}

pub fn run(args: &[u64], out: &mut Out) {
    let mut r = Rd { a: args, p: 0 };
    check_universe(&mut r, out);
    run_script(&args[r.p..], out);
}

/// Engine 2: twin scripts (C10)
pub fn run_twin(args: &[u64], out: &mut Out) {
    let mut r = Rd { a: args, p: 0 };
    check_universe(&mut r, out);
    let la = r.next() as usize;
    let a = &args[r.p..r.p + la];
    let b = &args[r.p + la..];
    let ca = run_script(a, out);
    let cb = run_script(b, out);
    if ca.0 != cb.0 {
        out.flag("C10: permuting bundle fields / switching representation changed the resulting entities".to_string());
    }
    if ca.1 != cb.1 {
        out.flag(format!("C10: same component sets stored in different archetype structure: {:?} vs {:?}", ca.1, cb.1));
    }
}
