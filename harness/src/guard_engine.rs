//! Borrow-guard opcodes 100..115 of the script interpreter (protocol: coq/Model/WorldRun.v
//! exec_guard).  Worlds are frozen while guards exist; guards live in a slab as `Box<dyn Any>`.
//! Besides the model comparison, a ghost reader/writer set per (world, archetype, type) judges the
//! implementation on its own: aliasing-xor-mutation, exactness of conflicts, release on drop.
use crate::comps::*;
use crate::query_engine::{EncItem, QDesc, QVisitor};
use crate::world_engine::*;
use crate::{with_comp, Out};
use hecs::*;
use std::any::Any;
use std::collections::HashMap;
use std::panic::{catch_unwind, AssertUnwindSafe};

pub trait TVisitor {
    type Out;
    fn visit2<Q: QDesc, R: QDesc>(self) -> Self::Out
    where
        for<'a> Q::Item<'a>: EncItem;
}
pub trait BVisitor {
    type Out;
    fn visit<Q: Query + 'static>(self) -> Self::Out;
}

/// what a guard should hold under the property: (world, archetype, type, unique)
type Ghost = Vec<(usize, usize, u64, bool)>;

pub struct Slot {
    pub kind: u8, // 0 none, 1 query, 2 view, 3 prepared, 4 one, 5 ref, 6 refmut, 7 col, 8 colmut
    pub qidx: u64,
    pub world: usize,
    pub obj: Option<Box<dyn Any>>,
    pub ghost: Ghost,
    pub ast: Vec<u64>,
    pub arch: usize,
    pub ty: u64,
    pub acquired: bool,
}
impl Slot {
    fn none() -> Slot {
        Slot { kind: 0, qidx: 0, world: 0, obj: None, ghost: Vec::new(), ast: Vec::new(), arch: 0, ty: 0, acquired: false }
    }
}

#[derive(Default)]
pub struct Guards {
    pub slots: Vec<Slot>,
    /// a failed acquisition happened in this world: partial borrows may be outstanding (finding F9)
    pub tainted: [bool; 2],
}

// ---- a small independent evaluator of query ASTs over type sets (for the ghost oracle) ----
fn ast_len(a: &[u64]) -> usize {
    match a[0] {
        1 | 2 => 2,
        3 | 7 => 1 + ast_len(&a[1..]),
        4 | 5 | 6 => {
            let l = ast_len(&a[1..]);
            1 + l + ast_len(&a[1 + l..])
        }
        _ => {
            let mut p = 2;
            for _ in 0..a[1] {
                p += ast_len(&a[p..]);
            }
            p
        }
    }
}
fn ast_sat(a: &[u64], ts: &[u64]) -> bool {
    match a[0] {
        1 | 2 => ts.contains(&a[1]),
        3 | 7 => true,
        4 => {
            let l = ast_len(&a[1..]);
            ast_sat(&a[1..], ts) || ast_sat(&a[1 + l..], ts)
        }
        5 => {
            let l = ast_len(&a[1..]);
            ast_sat(&a[1..], ts) && ast_sat(&a[1 + l..], ts)
        }
        6 => {
            let l = ast_len(&a[1..]);
            ast_sat(&a[1..], ts) && !ast_sat(&a[1 + l..], ts)
        }
        _ => {
            let mut p = 2;
            for _ in 0..a[1] {
                if !ast_sat(&a[p..], ts) {
                    return false;
                }
                p += ast_len(&a[p..]);
            }
            true
        }
    }
}
/// columns an entity-set with types `ts` has touched by the query: (type, unique)
fn ast_touch(a: &[u64], ts: &[u64], out: &mut Vec<(u64, bool)>) {
    match a[0] {
        1 => out.push((a[1], false)),
        2 => out.push((a[1], true)),
        3 => {
            if ast_sat(&a[1..], ts) {
                ast_touch(&a[1..], ts, out)
            }
        }
        7 => {}
        4 => {
            let l = ast_len(&a[1..]);
            if ast_sat(&a[1..], ts) {
                ast_touch(&a[1..], ts, out)
            }
            if ast_sat(&a[1 + l..], ts) {
                ast_touch(&a[1 + l..], ts, out)
            }
        }
        5 | 6 => ast_touch(&a[1..], ts, out),
        _ => {
            let mut p = 2;
            for _ in 0..a[1] {
                ast_touch(&a[p..], ts, out);
                p += ast_len(&a[p..]);
            }
        }
    }
}

fn arch_types(a: &Archetype) -> Vec<u64> {
    let mut ts = Vec::new();
    for t in 0..NTYPES as u64 {
        with_comp!(t, C, {
            if a.has::<C>() {
                ts.push(t);
            }
        });
    }
    ts
}

fn ghost_of_query(w: usize, world: &World, ast: &[u64], only_arch: Option<usize>) -> Ghost {
    let mut g = Vec::new();
    for (i, a) in world.archetypes().enumerate() {
        if a.is_empty() && only_arch.is_none() {
            continue;
        }
        if let Some(o) = only_arch {
            if o != i {
                continue;
            }
        }
        let ts = arch_types(a);
        if ast_sat(ast, &ts) {
            let mut cols = Vec::new();
            ast_touch(ast, &ts, &mut cols);
            for (t, u) in cols {
                g.push((w, i, t, u));
            }
        }
    }
    g
}

struct NewQ<'a>(&'a World);
impl QVisitor for NewQ<'_> {
    type Out = Box<dyn Any>;
    fn visit<Q: QDesc>(self) -> Box<dyn Any>
    where
        for<'a> Q::Item<'a>: EncItem,
    {
        let w: &'static World = unsafe { std::mem::transmute(self.0) };
        Box::new(w.query::<Q>())
    }
}
struct AcquireQ<'a>(&'a mut Box<dyn Any>, u64);
impl QVisitor for AcquireQ<'_> {
    type Out = ();
    fn visit<Q: QDesc>(self)
    where
        for<'a> Q::Item<'a>: EncItem,
    {
        let qb = self.0.downcast_mut::<QueryBorrow<'static, Q>>().expect("slot type");
        // every method that starts using a QueryBorrow must take the same dynamic borrows
        match self.1 {
            0 => drop(qb.iter()),
            1 => drop(qb.iter_batched(2)),
            _ => drop(qb.view()),
        }
    }
}
struct NewView<'a>(&'a World);
impl QVisitor for NewView<'_> {
    type Out = Box<dyn Any>;
    fn visit<Q: QDesc>(self) -> Box<dyn Any>
    where
        for<'a> Q::Item<'a>: EncItem,
    {
        let w: &'static World = unsafe { std::mem::transmute(self.0) };
        Box::new(w.view::<Q>())
    }
}
struct NewPrep<'a>(&'a World);
impl QVisitor for NewPrep<'_> {
    type Out = Box<dyn Any>;
    fn visit<Q: QDesc>(self) -> Box<dyn Any>
    where
        for<'a> Q::Item<'a>: EncItem,
    {
        let w: &'static World = unsafe { std::mem::transmute(self.0) };
        // the PreparedQuery must outlive its borrow: leak it (a few bytes per case)
        let pq: &'static mut PreparedQuery<Q> = Box::leak(Box::new(PreparedQuery::<Q>::new()));
        Box::new(pq.query(w))
    }
}
struct NewOne<'a>(&'a World, Entity);
impl QVisitor for NewOne<'_> {
    type Out = Option<Box<dyn Any>>;
    fn visit<Q: QDesc>(self) -> Option<Box<dyn Any>>
    where
        for<'a> Q::Item<'a>: EncItem,
    {
        let w: &'static World = unsafe { std::mem::transmute(self.0) };
        w.query_one::<Q>(self.1).ok().map(|q| Box::new(q) as Box<dyn Any>)
    }
}
struct OneGet<'a>(&'a mut Box<dyn Any>);
impl QVisitor for OneGet<'_> {
    type Out = bool;
    fn visit<Q: QDesc>(self) -> bool
    where
        for<'a> Q::Item<'a>: EncItem,
    {
        let q1 = self.0.downcast_mut::<QueryOne<'static, Q>>().expect("slot type");
        q1.get().is_some()
    }
}
struct TransformQ(Box<dyn Any>, u64);
impl TVisitor for TransformQ {
    type Out = Box<dyn Any>;
    fn visit2<Q: QDesc, R: QDesc>(self) -> Box<dyn Any>
    where
        for<'a> Q::Item<'a>: EncItem,
    {
        let qb = *self.0.downcast::<QueryBorrow<'static, Q>>().ok().expect("slot type");
        if self.1 == 0 {
            Box::new(qb.with::<R>())
        } else {
            Box::new(qb.without::<R>())
        }
    }
}
struct TransformOne(Box<dyn Any>, u64);
impl TVisitor for TransformOne {
    type Out = Box<dyn Any>;
    fn visit2<Q: QDesc, R: QDesc>(self) -> Box<dyn Any>
    where
        for<'a> Q::Item<'a>: EncItem,
    {
        let q1 = *self.0.downcast::<QueryOne<'static, Q>>().ok().expect("slot type");
        if self.1 == 0 {
            Box::new(q1.with::<R>())
        } else {
            Box::new(q1.without::<R>())
        }
    }
}
struct StaticCheck<'a>(&'a mut World, u64, Entity);
impl BVisitor for StaticCheck<'_> {
    type Out = ();
    fn visit<Q: Query + 'static>(self) {
        match self.1 {
            0 => {
                let _ = self.0.query_mut::<Q>();
            }
            1 => {
                let _ = self.0.view_mut::<Q>();
            }
            2 => {
                let _ = self.0.query_one_mut::<Q>(self.2);
            }
            3 => {
                let _ = self.0.query_one::<Q>(self.2);
            }
            4 => {
                let mut p = PreparedQuery::<Q>::new();
                let _ = p.query_mut(self.0);
            }
            7 => {
                // the static check does not depend on how many entities are asked for
                let _ = self.0.query_many_mut::<Q, 1>([self.2]);
            }
            8 => {
                let _ = self.0.query_many_mut::<Q, 2>([self.2, Entity::DANGLING]);
            }
            _ => {
                // a prepared query whose cache is already valid for this world (filled through the dynamically
                // checked path, which has nothing to borrow here): the static check must not depend on the cache
                let mut p = PreparedQuery::<Q>::new();
                let _ = std::panic::catch_unwind(std::panic::AssertUnwindSafe(|| {
                    let _ = p.query(&*self.0).iter().count();
                }));
                if self.1 == 5 {
                    let _ = p.query_mut(self.0);
                } else {
                    let _ = p.view_mut(self.0);
                }
            }
        }
    }
}

impl Engine {
    fn world_ref(&self, w: usize) -> Option<&'static World> {
        if !self.live_pub(w) {
            return None;
        }
        let r: &World = self.worlds[w].as_ref().unwrap();
        Some(unsafe { std::mem::transmute::<&World, &'static World>(r) })
    }

    fn ghost_conflict(&self, g: &Ghost) -> bool {
        // also conflicts within g itself are conflicts (a query aliasing itself)
        for s in &self.guards.slots {
            if !s.acquired {
                continue;
            }
            for a in &s.ghost {
                for b in g {
                    if a.0 == b.0 && a.1 == b.1 && a.2 == b.2 && (a.3 || b.3) {
                        return true;
                    }
                }
            }
        }
        for (i, a) in g.iter().enumerate() {
            for (j, b) in g.iter().enumerate() {
                if i != j && a.0 == b.0 && a.1 == b.1 && a.2 == b.2 && (a.3 || b.3) {
                    return true;
                }
            }
        }
        false
    }

    /// judge an acquisition: `ok` = it was granted
    fn judge(&mut self, w: usize, g: &Ghost, ok: bool, what: &str, out: &mut Out) {
        if self.guards.tainted[w] {
            return;
        }
        let conflict = self.ghost_conflict(g);
        if ok && conflict {
            out.flag(format!("C05: {what} was granted although it overlaps a live borrow with a unique access: {:?}", g));
        }
        if !ok && !conflict {
            out.flag(format!("C05: {what} was refused although no live borrow conflicts with it: {:?}", g));
        }
        if !ok {
            self.guards.tainted[w] = true;
        }
    }

    /// raw borrow flag of every column of both worlds (cfg(hecs_verif) hook): reader count, plus 2^63
    /// when uniquely borrowed; returns whether any flag is non-zero
    fn dump_cells(&self, obs: &mut Vec<u64>) -> bool {
        let mut held = false;
        for w in 0..2 {
            if !self.live_pub(w) {
                obs.push(7);
                continue;
            }
            obs.push(5);
            let world = self.worlds[w].as_ref().unwrap();
            for a in world.archetypes() {
                for t in 0..NTYPES as u64 {
                    with_comp!(t, C, {
                        if let Some(raw) = a.verif_borrow_raw::<C>() {
                            held |= raw != 0;
                            obs.push(raw as u64);
                        }
                    });
                }
            }
        }
        held
    }

    fn drop_slot(&mut self, i: usize) -> bool {
        let s = std::mem::replace(&mut self.guards.slots[i], Slot::none());
        match s.obj {
            Some(o) => catch_unwind(AssertUnwindSafe(move || drop(o))).is_err(),
            None => false,
        }
    }

    pub fn guard_op(&mut self, opc: u64, r: &mut Rd, out: &mut Out) -> Vec<u64> {
        let mut push = |eng: &mut Engine, s: Slot| eng.guards.slots.push(s);
        match opc {
            100 | 104 | 105 => {
                let (w, qidx) = (r.next() as usize, r.next());
                let n = r.next() as usize;
                let ast = r.take(n);
                let world = match self.world_ref(w) {
                    Some(x) => x,
                    None => {
                        push(self, Slot::none());
                        return vec![8];
                    }
                };
                let ghost = ghost_of_query(w, world, &ast, None);
                if opc == 100 {
                    let obj = crate::gen_queries::dispatch_query(qidx, NewQ(world)).expect("query index");
                    push(self, Slot { kind: 1, qidx, world: w, obj: Some(obj), ghost, ast, arch: 0, ty: 0, acquired: false });
                    return vec![0];
                }
                let res = catch_unwind(AssertUnwindSafe(|| {
                    if opc == 104 {
                        crate::gen_queries::dispatch_query(qidx, NewView(world)).expect("query index")
                    } else {
                        crate::gen_queries::dispatch_query(qidx, NewPrep(world)).expect("query index")
                    }
                }));
                self.judge(w, &ghost, res.is_ok(), if opc == 104 { "view()" } else { "PreparedQuery::query()" }, out);
                match res {
                    Ok(obj) => {
                        push(self, Slot { kind: if opc == 104 { 2 } else { 3 }, qidx, world: w, obj: Some(obj), ghost, ast, arch: 0, ty: 0, acquired: true });
                        vec![0]
                    }
                    Err(_) => {
                        push(self, Slot::none());
                        vec![9]
                    }
                }
            }
            101 => {
                let i = r.next() as usize;
                if i >= self.guards.slots.len() || self.guards.slots[i].kind != 1 {
                    return vec![8];
                }
                if self.guards.slots[i].acquired {
                    // a second use of an already acquired QueryBorrow (iter / iter_batched / view) takes nothing again
                    let qidx = self.guards.slots[i].qidx;
                    let mut obj = self.guards.slots[i].obj.take().unwrap();
                    let res = catch_unwind(AssertUnwindSafe(|| crate::gen_queries::dispatch_query(qidx, AcquireQ(&mut obj, ((i + 1) % 3) as u64))));
                    self.guards.slots[i].obj = Some(obj);
                    if res.is_err() {
                        out.flag("C05: using an already acquired QueryBorrow a second time panicked".to_string());
                    }
                    return vec![0];
                }
                let qidx = self.guards.slots[i].qidx;
                let w = self.guards.slots[i].world;
                let ghost = self.guards.slots[i].ghost.clone();
                let mut obj = self.guards.slots[i].obj.take().unwrap();
                let res = catch_unwind(AssertUnwindSafe(|| crate::gen_queries::dispatch_query(qidx, AcquireQ(&mut obj, (i % 3) as u64))));
                self.guards.slots[i].obj = Some(obj);
                self.judge(w, &ghost, res.is_ok(), "query().iter()", out);
                if res.is_ok() {
                    self.guards.slots[i].acquired = true;
                    vec![0]
                } else {
                    vec![9]
                }
            }
            102 | 110 => {
                let (i, kind, ridx, new_qidx) = (r.next() as usize, r.next(), r.next(), r.next());
                let n = r.next() as usize;
                let rast = r.take(n);
                let want = if opc == 102 { 1 } else { 4 };
                if i >= self.guards.slots.len() || self.guards.slots[i].kind != want {
                    push(self, Slot::none());
                    return vec![8];
                }
                let s = std::mem::replace(&mut self.guards.slots[i], Slot::none());
                let qidx = s.qidx;
                let obj = s.obj.unwrap();
                let res = catch_unwind(AssertUnwindSafe(|| {
                    if opc == 102 {
                        crate::gen_queries::dispatch_transform(qidx, ridx, TransformQ(obj, kind)).expect("transform entry")
                    } else {
                        crate::gen_queries::dispatch_transform(qidx, ridx, TransformOne(obj, kind)).expect("transform entry")
                    }
                }));
                // the narrowed query: With/Without(Q, R)
                let mut ast = vec![if kind == 0 { 5 } else { 6 }];
                ast.extend(&s.ast);
                ast.extend(&rast);
                match res {
                    Ok(obj) => {
                        let world = self.world_ref(s.world).unwrap();
                        let ghost = ghost_of_query(s.world, world, &ast, if opc == 110 { Some(s.arch) } else { None });
                        push(self, Slot { kind: want, qidx: new_qidx, world: s.world, obj: Some(obj), ghost, ast, arch: s.arch, ty: 0, acquired: false });
                        vec![0]
                    }
                    Err(_) => {
                        out.flag("C05: narrowing a guard with with()/without() panicked".to_string());
                        push(self, Slot::none());
                        vec![9]
                    }
                }
            }
            103 => {
                let i = r.next() as usize;
                if i >= self.guards.slots.len() {
                    return vec![0];
                }
                let p = self.drop_slot(i);
                if p {
                    out.flag("C05: dropping a guard panicked".to_string());
                }
                vec![if p { 9 } else { 0 }]
            }
            106 => {
                let w = r.next() as usize;
                let h = self.href(r);
                let (t, uniq) = (r.next(), r.next() == 1);
                let world = match self.world_ref(w) {
                    Some(x) => x,
                    None => {
                        push(self, Slot::none());
                        return vec![8];
                    }
                };
                let mut code = 0;
                let mut obj: Option<Box<dyn Any>> = None;
                let mut arch = 0usize;
                with_comp!(t, C, {
                    let res = catch_unwind(AssertUnwindSafe(|| -> Result<Box<dyn Any>, ComponentError> {
                        if uniq {
                            world.get::<&mut C>(h).map(|x| Box::new(x) as Box<dyn Any>)
                        } else {
                            world.get::<&C>(h).map(|x| Box::new(x) as Box<dyn Any>)
                        }
                    }));
                    match res {
                        Ok(Ok(o)) => obj = Some(o),
                        Ok(Err(ComponentError::NoSuchEntity)) => code = 1,
                        Ok(Err(ComponentError::MissingComponent(_))) => code = 2,
                        Err(_) => code = 9,
                    }
                });
                if code == 0 || code == 9 {
                    // which archetype holds h: the one whose ids contain it
                    for (i, a) in world.archetypes().enumerate() {
                        if a.ids().contains(&h.id()) {
                            arch = i;
                        }
                    }
                    let ghost = vec![(w, arch, t, uniq)];
                    self.judge(w, &ghost, code == 0, "get()", out);
                    if code == 0 {
                        push(self, Slot { kind: if uniq { 6 } else { 5 }, qidx: 0, world: w, obj, ghost, ast: vec![], arch, ty: t, acquired: true });
                        return vec![0];
                    }
                }
                push(self, Slot::none());
                vec![code]
            }
            107 | 112 => {
                let i = r.next() as usize;
                let want = if opc == 107 { 5 } else { 7 };
                if i >= self.guards.slots.len() || self.guards.slots[i].kind != want {
                    push(self, Slot::none());
                    return vec![8];
                }
                let (w, arch, t, held) = (self.guards.slots[i].world, self.guards.slots[i].arch, self.guards.slots[i].ty, self.guards.slots[i].acquired);
                let mut obj: Option<Box<dyn Any>> = None;
                let src = self.guards.slots[i].obj.as_ref().unwrap();
                let res = catch_unwind(AssertUnwindSafe(|| {
                    let mut o: Option<Box<dyn Any>> = None;
                    with_comp!(t, C, {
                        if opc == 107 {
                            let r0 = src.downcast_ref::<Ref<'static, C>>().expect("slot type");
                            o = Some(Box::new(r0.clone()));
                        } else {
                            let c0 = src.downcast_ref::<ArchetypeColumn<'static, C>>().expect("slot type");
                            o = Some(Box::new(c0.clone()));
                        }
                    });
                    o
                }));
                let ghost = if held { vec![(w, arch, t, false)] } else { vec![] };
                match res {
                    Ok(o) => obj = o,
                    Err(_) => out.flag("C05: cloning a shared guard panicked".to_string()),
                }
                match obj {
                    Some(o) => {
                        push(self, Slot { kind: want, qidx: 0, world: w, obj: Some(o), ghost, ast: vec![], arch, ty: t, acquired: held });
                        vec![0]
                    }
                    None => {
                        push(self, Slot::none());
                        vec![9]
                    }
                }
            }
            108 => {
                let w = r.next() as usize;
                let h = self.href(r);
                let qidx = r.next();
                let n = r.next() as usize;
                let ast = r.take(n);
                let world = match self.world_ref(w) {
                    Some(x) => x,
                    None => {
                        push(self, Slot::none());
                        return vec![8];
                    }
                };
                match crate::gen_queries::dispatch_query(qidx, NewOne(world, h)).expect("query index") {
                    None => {
                        push(self, Slot::none());
                        vec![1]
                    }
                    Some(obj) => {
                        let mut arch = 0;
                        for (i, a) in world.archetypes().enumerate() {
                            if a.ids().contains(&h.id()) {
                                arch = i;
                            }
                        }
                        let ghost = ghost_of_query(w, world, &ast, Some(arch));
                        push(self, Slot { kind: 4, qidx, world: w, obj: Some(obj), ghost, ast, arch, ty: 0, acquired: false });
                        vec![0]
                    }
                }
            }
            109 => {
                let i = r.next() as usize;
                if i >= self.guards.slots.len() || self.guards.slots[i].kind != 4 {
                    return vec![8];
                }
                let qidx = self.guards.slots[i].qidx;
                let w = self.guards.slots[i].world;
                let ghost = self.guards.slots[i].ghost.clone();
                let already = self.guards.slots[i].acquired;
                let mut obj = self.guards.slots[i].obj.take().unwrap();
                let res = catch_unwind(AssertUnwindSafe(|| crate::gen_queries::dispatch_query(qidx, OneGet(&mut obj)).expect("query index")));
                self.guards.slots[i].obj = Some(obj);
                match res {
                    Ok(true) => {
                        self.judge(w, &ghost, true, "QueryOne::get()", out);
                        self.guards.slots[i].acquired = true;
                        vec![0]
                    }
                    Ok(false) => {
                        if !ghost.is_empty() && false {
                            out.flag("unreachable".to_string());
                        }
                        vec![3]
                    }
                    Err(_) => {
                        if !already {
                            self.judge(w, &ghost, false, "QueryOne::get()", out);
                        }
                        vec![9]
                    }
                }
            }
            111 => {
                let (w, ai, t, uniq) = (r.next() as usize, r.next() as usize, r.next(), r.next() == 1);
                let world = match self.world_ref(w) {
                    Some(x) => x,
                    None => {
                        push(self, Slot::none());
                        return vec![8];
                    }
                };
                let a = match world.archetypes().nth(ai) {
                    Some(a) => a,
                    None => {
                        push(self, Slot::none());
                        return vec![3];
                    }
                };
                let mut code = 3;
                let mut obj: Option<Box<dyn Any>> = None;
                with_comp!(t, C, {
                    let res = catch_unwind(AssertUnwindSafe(|| -> Option<Box<dyn Any>> {
                        if uniq {
                            a.get::<&mut C>().map(|x| Box::new(x) as Box<dyn Any>)
                        } else {
                            a.get::<&C>().map(|x| Box::new(x) as Box<dyn Any>)
                        }
                    }));
                    match res {
                        Ok(Some(o)) => {
                            obj = Some(o);
                            code = 0;
                        }
                        Ok(None) => code = 3,
                        Err(_) => code = 9,
                    }
                });
                if code == 3 {
                    push(self, Slot::none());
                    return vec![3];
                }
                let held = !a.is_empty();
                let ghost = if held { vec![(w, ai, t, uniq)] } else { vec![] };
                self.judge(w, &ghost, code == 0, "Archetype::get()", out);
                if code == 0 {
                    push(self, Slot { kind: if uniq { 8 } else { 7 }, qidx: 0, world: w, obj, ghost, ast: vec![], arch: ai, ty: t, acquired: held });
                    vec![0]
                } else {
                    push(self, Slot::none());
                    vec![9]
                }
            }
            113 => {
                let idx = r.next();
                let n = r.next() as usize;
                let _ast = r.take(n);
                let path = idx / 100;
                let mut tmp = World::new();
                let h = tmp.spawn(());
                let world = &mut tmp;
                let res = catch_unwind(AssertUnwindSafe(|| crate::gen_queries::dispatch_bad(idx % 100, StaticCheck(world, path, h))));
                match res {
                    Ok(_) => {
                        out.flag(format!("C05: a query that aliases a unique borrow within itself was accepted (bad query {}, path {path})", idx % 100));
                        vec![0]
                    }
                    Err(_) => vec![9],
                }
            }
            116 => {
                // Ref::map / RefMut::map (identity projection): the old guard is consumed, the new one holds the same borrow
                let i = r.next() as usize;
                if i >= self.guards.slots.len() || !(self.guards.slots[i].kind == 5 || self.guards.slots[i].kind == 6) {
                    return vec![8];
                }
                let (kind, t) = (self.guards.slots[i].kind, self.guards.slots[i].ty);
                let old = self.guards.slots[i].obj.take().unwrap();
                let mut newobj: Option<Box<dyn Any>> = None;
                with_comp!(t, C, {
                    if kind == 5 {
                        let r0 = *old.downcast::<Ref<'static, C>>().expect("slot type");
                        newobj = Some(Box::new(Ref::map(r0, |c| c)));
                    } else {
                        let r0 = *old.downcast::<RefMut<'static, C>>().expect("slot type");
                        newobj = Some(Box::new(RefMut::map(r0, |c| c)));
                    }
                });
                self.guards.slots[i].obj = newobj;
                vec![0]
            }
            114 => {
                let mut obs = Vec::new();
                self.dump_cells(&mut obs);
                obs
            }
            115 => {
                for i in 0..self.guards.slots.len() {
                    if self.drop_slot(i) {
                        out.flag("C05: dropping a guard panicked".to_string());
                    }
                }
                let mut obs = Vec::new();
                let held = self.dump_cells(&mut obs);
                // every guard is gone: every flag must be back to zero
                if held {
                    if self.guards.tainted.iter().any(|t| *t) {
                        out.flag("C05: columns still borrowed after all guards were dropped, following a failed acquisition (partial borrows are not rolled back)".to_string());
                    } else {
                        out.flag("C05: columns still borrowed after all guards were dropped".to_string());
                    }
                }
                self.guards.tainted = [false, false];
                obs
            }
            _ => vec![],
        }
    }
}

#[allow(dead_code)]
fn _unused(_: HashMap<u8, u8>) {}
