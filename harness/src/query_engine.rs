//! Query paths of the world engine (opcode 30): every way of asking the same question —
//! query / query_mut / view / batched / prepared query(+mut, +view) / query_one(_mut) /
//! satisfies / Archetype::access — over a generated catalogue of query types.  Each query type
//! describes its own AST (so the AST sent to the model is derived from the Rust type) and each item
//! type encodes itself.
use crate::comps::*;
use crate::Out;
use hecs::*;
use std::any::Any;
use std::collections::HashMap;

pub trait EncItem {
    fn enc(&self, out: &mut Vec<u64>);
}
fn zv<T: Comp>(x: &T) -> u64 {
    if std::mem::size_of::<T>() == 0 {
        0
    } else {
        x.val()
    }
}
impl<T: Comp> EncItem for &T {
    fn enc(&self, out: &mut Vec<u64>) {
        out.extend([1, T::T, zv::<T>(self)]);
    }
}
impl<T: Comp> EncItem for &mut T {
    fn enc(&self, out: &mut Vec<u64>) {
        out.extend([1, T::T, zv::<T>(self)]);
    }
}
impl<I: EncItem> EncItem for Option<I> {
    fn enc(&self, out: &mut Vec<u64>) {
        match self {
            None => out.push(2),
            Some(i) => {
                out.push(3);
                i.enc(out)
            }
        }
    }
}
impl<L: EncItem, R: EncItem> EncItem for Or<L, R> {
    fn enc(&self, out: &mut Vec<u64>) {
        match self {
            Or::Left(l) => {
                out.push(4);
                l.enc(out)
            }
            Or::Right(r) => {
                out.push(5);
                r.enc(out)
            }
            Or::Both(l, r) => {
                out.push(6);
                l.enc(out);
                r.enc(out)
            }
        }
    }
}
impl EncItem for bool {
    fn enc(&self, out: &mut Vec<u64>) {
        out.extend([7, *self as u64]);
    }
}
macro_rules! tup_enc {
    ($n:expr; $($t:ident : $i:tt),*) => {
        impl<$($t: EncItem),*> EncItem for ($($t,)*) {
            #[allow(unused_variables)]
            fn enc(&self, out: &mut Vec<u64>) {
                out.extend([8, $n]);
                $( self.$i.enc(out); )*
            }
        }
    };
}
tup_enc!(0;);
tup_enc!(1; A:0);
tup_enc!(2; A:0, B:1);
tup_enc!(3; A:0, B:1, C:2);

/// A query type that can describe its own AST (encoding: coq/Model/WorldRun.v `dec_query`)
pub trait QDesc: Query + 'static {
    fn ast(out: &mut Vec<u64>);
}
impl<T: Comp> QDesc for &'static T {
    fn ast(out: &mut Vec<u64>) {
        out.extend([1, T::T]);
    }
}
impl<T: Comp> QDesc for &'static mut T {
    fn ast(out: &mut Vec<u64>) {
        out.extend([2, T::T]);
    }
}
impl<Q: QDesc> QDesc for Option<Q> {
    fn ast(out: &mut Vec<u64>) {
        out.push(3);
        Q::ast(out);
    }
}
impl<L: QDesc, R: QDesc> QDesc for Or<L, R> {
    fn ast(out: &mut Vec<u64>) {
        out.push(4);
        L::ast(out);
        R::ast(out);
    }
}
impl<Q: QDesc, R: QDesc> QDesc for With<Q, R> {
    fn ast(out: &mut Vec<u64>) {
        out.push(5);
        Q::ast(out);
        R::ast(out);
    }
}
impl<Q: QDesc, R: QDesc> QDesc for Without<Q, R> {
    fn ast(out: &mut Vec<u64>) {
        out.push(6);
        Q::ast(out);
        R::ast(out);
    }
}
impl<Q: QDesc> QDesc for Satisfies<Q> {
    fn ast(out: &mut Vec<u64>) {
        out.push(7);
        Q::ast(out);
    }
}
macro_rules! tup_desc {
    ($n:expr; $($t:ident),*) => {
        impl<$($t: QDesc),*> QDesc for ($($t,)*) {
            fn ast(out: &mut Vec<u64>) {
                out.extend([8, $n]);
                $( $t::ast(out); )*
            }
        }
    };
}
tup_desc!(0;);
tup_desc!(1; A);
tup_desc!(2; A, B);
tup_desc!(3; A, B, C);

pub trait QVisitor {
    type Out;
    fn visit<Q: QDesc>(self) -> Self::Out
    where
        for<'a> Q::Item<'a>: EncItem;
}

fn enc_pair<I: EncItem>(e: Entity, i: &I, out: &mut Vec<u64>) {
    out.push(e.to_bits().into());
    i.enc(out);
}

/// walk an exact-size iterator: len() must equal the number of items still to come at EVERY step
fn drain_exact<T: EncItem, I: ExactSizeIterator<Item = (Entity, T)>>(mut it: I, body: &mut Vec<u64>, flags: &mut Vec<String>, path: u64) -> (u64, u64) {
    let first = it.len() as u64;
    let mut lens = vec![first];
    let mut n = 0u64;
    while let Some((e, i)) = it.next() {
        enc_pair(e, &i, body);
        n += 1;
        lens.push(it.len() as u64);
        let (lo, hi) = it.size_hint();
        if lo as u64 != *lens.last().unwrap() || hi.map(|h| h as u64) != Some(*lens.last().unwrap()) {
            flags.push(format!("C08: size_hint {:?} disagrees with len() {} (path {path})", (lo, hi), lens.last().unwrap()));
        }
    }
    for (k, l) in lens.iter().enumerate() {
        if *l != n - k as u64 {
            flags.push(format!("C08: after {k} items len() reported {l} but {} more were yielded (path {path})", n - k as u64));
            break;
        }
    }
    (first, n)
}

/// is the marker trait hecs::QueryShared implemented for Q?  (inherent method when the bound holds, trait
/// method otherwise: resolved at compile time, so this compiles whichever way hecs decides)
pub struct SharedProbe<Q>(pub std::marker::PhantomData<Q>);
impl<Q: hecs::QueryShared> SharedProbe<Q> {
    pub fn is_shared(&self) -> bool {
        true
    }
}
pub trait NotSharedFallback {
    fn is_shared(&self) -> bool {
        false
    }
}
impl<Q> NotSharedFallback for SharedProbe<Q> {}

pub struct PathV<'a> {
    pub world: &'a mut World,
    pub path: u64,
    pub arg: u64,
    pub handles: &'a [Entity],
    pub prepared: &'a mut HashMap<u64, Box<dyn Any>>,
    pub qidx: u64,
    pub ast: &'a [u64],
    pub flags: &'a mut Vec<String>,
}

impl QVisitor for PathV<'_> {
    type Out = Vec<u64>;
    fn visit<Q: QDesc>(self) -> Vec<u64>
    where
        for<'a> Q::Item<'a>: EncItem,
    {
        let mut o = Vec::new();
        let mut mine = Vec::new();
        Q::ast(&mut mine);
        if mine != self.ast {
            self.flags.push(format!("harness: query catalogue entry {} has AST {:?}, the case says {:?}", self.qidx, mine, self.ast));
        }
        // View::get(&self) hands out items through a shared view: it is only sound for queries without unique access,
        // which is what the marker trait QueryShared stands for
        {
            let marker = crate::gen_queries::shared_marker(self.qidx).unwrap_or(false);
            let want = crate::gen_queries::SHARED[self.qidx as usize];
            if want >= 0 && marker != (want == 1) {
                self.flags.push(format!("C05/C08: QueryShared is {} for catalogue query {} but it must be {}", marker, self.qidx, want == 1));
            }
        }
        let w = self.world;
        match self.path {
            0 => {
                let mut qb = w.query::<Q>();
                let it = qb.iter();
                let mut body = Vec::new();
                let (first, n) = drain_exact(it, &mut body, self.flags, self.path);
                o.push(first);
                o.push(n);
                o.extend(body);
            }
            1 => {
                let it = w.query_mut::<Q>().into_iter();
                let mut body = Vec::new();
                let (first, n) = drain_exact(it, &mut body, self.flags, self.path);
                o.push(first);
                o.push(n);
                o.extend(body);
            }
            2 => {
                // view: iteration, then random access for every known handle
                let mut v = w.view_mut::<Q>();
                let mut n = 0u64;
                let mut body = Vec::new();
                for (e, i) in v.iter_mut() {
                    enc_pair(e, &i, &mut body);
                    n += 1;
                }
                if matches!(self.path, 0 | 1 | 4 | 5) && !o.is_empty() && o[0] != n {
                    self.flags.push(format!("C08: len() reported {} but iteration yielded {n} (path {})", o[0], self.path));
                }
                o.push(n);
                o.extend(body);
                let mut per_handle: Vec<Vec<u64>> = Vec::new();
                for h in self.handles {
                    let c = v.contains(*h);
                    let mut a = Vec::new();
                    match v.get_mut(*h) {
                        None => a.push(0),
                        Some(i) => {
                            a.push(1);
                            i.enc(&mut a);
                        }
                    }
                    if c != (a[0] == 1) {
                        self.flags.push(format!("C08: View::contains({:?}) = {c} disagrees with get_mut", h));
                    }
                    o.extend(a.iter());
                    per_handle.push(a);
                }
                drop(v);
                // the dynamically checked view must agree
                let mut vb = w.view::<Q>();
                for (k, h) in self.handles.iter().enumerate() {
                    let mut a = Vec::new();
                    match vb.get_mut(*h) {
                        None => a.push(0),
                        Some(i) => {
                            a.push(1);
                            i.enc(&mut a);
                        }
                    }
                    if a != per_handle[k] {
                        self.flags.push(format!("C08: view() and view_mut() disagree on {:?}", h));
                    }
                }
            }
            3 => {
                let bs = self.arg as u32;
                let mut qb = w.query::<Q>();
                let mut batches = Vec::new();
                for batch in qb.iter_batched(bs) {
                    let mut n = 0u64;
                    let mut body = Vec::new();
                    for (e, i) in batch {
                        enc_pair(e, &i, &mut body);
                        n += 1;
                    }
                    batches.push((n, body));
                    if batches.len() > 100_000 {
                        self.flags.push("C08: batched iteration does not terminate".to_string());
                        break;
                    }
                }
                o.push(batches.len() as u64);
                for (n, body) in batches {
                    if matches!(self.path, 0 | 1 | 4 | 5) && !o.is_empty() && o[0] != n {
                        self.flags.push(format!("C08: len() reported {} but iteration yielded {n} (path {})", o[0], self.path));
                    }
                    o.push(n);
                    o.extend(body);
                }
            }
            4 | 5 | 6 => {
                let pq = self
                    .prepared
                    .entry(self.qidx)
                    .or_insert_with(|| Box::new(PreparedQuery::<Q>::new()))
                    .downcast_mut::<PreparedQuery<Q>>()
                    .unwrap();
                if self.path == 4 {
                    let n = {
                        let mut b = pq.query(w);
                        let it = b.iter();
                        let mut body = Vec::new();
                        let (first, n) = drain_exact(it, &mut body, self.flags, self.path);
                        o.push(first);
                        o.push(n);
                        o.extend(body);
                        n
                    };
                    // a prepared query is a cache: it visits what the plain query visits now
                    let plain = w.query::<Q>().iter().count() as u64;
                    if plain != n {
                        self.flags.push(format!("C17/C16: the prepared query visits {n} entities, the plain query {plain}"));
                    }
                    // advanced once by hand, the rest consumed in one go (count goes through fold, as for_each and sum do)
                    let n2 = {
                        let mut b = pq.query(w);
                        let mut it = b.iter();
                        let first = it.next().is_some() as u64;
                        let rest = it.count() as u64;
                        first + rest
                    };
                    let n3 = {
                        let mut b = w.query::<Q>();
                        let mut it = b.iter();
                        let first = it.next().is_some() as u64;
                        let rest = it.count() as u64;
                        first + rest
                    };
                    if n2 != n || n3 != n {
                        self.flags.push(format!("C17/C08: {n} items one by one, but {n2} (prepared) / {n3} (plain) when the rest is counted after one next()"));
                    }
                } else if self.path == 5 {
                    let it = pq.query_mut(w);
                    let mut body = Vec::new();
                    let (first, n) = drain_exact(it, &mut body, self.flags, self.path);
                    o.push(first);
                    o.push(n);
                    o.extend(body);
                    let n2 = {
                        let mut it = pq.query_mut(w);
                        let first = it.next().is_some() as u64;
                        let rest = it.count() as u64;
                        first + rest
                    };
                    if n2 != n {
                        self.flags.push(format!("C17/C08: query_mut of a prepared query: {n} items one by one, but {n2} when the rest is counted after one next()"));
                    }
                } else {
                    let mut per_handle: Vec<Vec<u64>> = Vec::new();
                    {
                        let mut v = pq.view_mut(w);
                        for h in self.handles {
                            let mut a = Vec::new();
                            let inside = v.contains(*h);
                            match v.get_mut(*h) {
                                None => a.push(0),
                                Some(i) => {
                                    a.push(1);
                                    i.enc(&mut a);
                                }
                            }
                            if inside != (a[0] == 1) {
                                self.flags.push(format!("C08/C16: PreparedView::contains({:?}) = {inside} but get_mut finds {}", h, if a[0] == 1 { "an item" } else { "nothing" }));
                            }
                            o.extend(a.iter());
                            per_handle.push(a);
                        }
                    }
                    // iterating the prepared view visits exactly the entities the prepared query visits
                    {
                        let mut a: Vec<u64> = pq.view_mut(w).iter_mut().map(|(e, _)| -> u64 { e.to_bits().into() }).collect();
                        let mut b: Vec<u64> = pq.query_mut(w).map(|(e, _)| -> u64 { e.to_bits().into() }).collect();
                        a.sort();
                        b.sort();
                        if a != b {
                            self.flags.push(format!("C08/C17: PreparedView::iter_mut visits {} entities, PreparedQuery::query_mut {}", a.len(), b.len()));
                        }
                    }
                    // what the prepared view hands out must be what a direct lookup hands out
                    for (k, h) in self.handles.iter().enumerate() {
                        if per_handle[k][0] == 1 {
                            let mut b = vec![1];
                            match w.query_one_mut::<Q>(*h) {
                                Ok(i) => i.enc(&mut b),
                                Err(_) => b[0] = 0,
                            }
                            if b != per_handle[k] {
                                self.flags.push(format!("C08/C17: PreparedView::get_mut({:?}) = {:?} but query_one_mut gives {:?}", h, per_handle[k], b));
                            }
                        }
                    }
                }
            }
            7 => {
                for h in self.handles {
                    let mut a = Vec::new();
                    match w.query_one_mut::<Q>(*h) {
                        Err(QueryOneError::NoSuchEntity) => a.push(0),
                        Err(QueryOneError::Unsatisfied) => a.push(1),
                        Ok(i) => {
                            a.push(2);
                            i.enc(&mut a);
                        }
                    }
                    // the dynamically checked path and EntityRef::query must agree
                    let mut b = Vec::new();
                    match w.query_one::<Q>(*h) {
                        Err(_) => b.push(0),
                        Ok(mut q1) => match q1.get() {
                            None => b.push(1),
                            Some(i) => {
                                b.push(2);
                                i.enc(&mut b);
                            }
                        },
                    }
                    let mut c = Vec::new();
                    match w.entity(*h) {
                        Err(_) => c.push(0),
                        Ok(er) => {
                            let mut q1 = er.query::<Q>();
                            let got = q1.get();
                            match got {
                                None => c.push(1),
                                Some(i) => {
                                    c.push(2);
                                    i.enc(&mut c);
                                }
                            };
                        }
                    }
                    let sat = match w.satisfies::<Q>(*h) {
                        Err(_) => 0,
                        Ok(false) => 1,
                        Ok(true) => 2,
                    };
                    if sat != a[0] {
                        self.flags.push(format!("C08: satisfies({:?}) = {sat} but query_one_mut = {} (0 no entity, 1 unsatisfied, 2 satisfied)", h, a[0]));
                    }
                    if a != b || a != c {
                        self.flags.push(format!("C08: query_one_mut / query_one / EntityRef::query disagree on {:?}: {:?} {:?} {:?}", h, a, b, c));
                    }
                    o.extend(a);
                }
            }
            9 => {
                // query_many_mut and View::get_many_mut on three probe handles (rotation by arg; arg >= 1000
                // repeats the first handle: assert_distinct must panic)
                let hs = self.handles;
                if hs.len() < 3 {
                    o.push(7);
                } else {
                    let k = (self.arg as usize) % hs.len();
                    let rot: Vec<Entity> = hs[k..].iter().chain(hs[..k].iter()).copied().collect();
                    let tri = if self.arg >= 1000 { [rot[0], rot[1], rot[0]] } else { [rot[0], rot[1], rot[2]] };
                    let flags = &mut *self.flags;
                    let r = std::panic::catch_unwind(std::panic::AssertUnwindSafe(|| {
                        let mut a = Vec::new();
                        for r in w.query_many_mut::<Q, 3>(tri) {
                            match r {
                                Err(QueryOneError::NoSuchEntity) => a.push(0),
                                Err(QueryOneError::Unsatisfied) => a.push(1),
                                Ok(i) => {
                                    a.push(2);
                                    i.enc(&mut a);
                                }
                            }
                        }
                        a
                    }));
                    let r2 = std::panic::catch_unwind(std::panic::AssertUnwindSafe(|| {
                        let mut a = Vec::new();
                        let mut v = w.view_mut::<Q>();
                        for r in v.get_many_mut(tri) {
                            match r {
                                None => a.push(0),
                                Some(i) => {
                                    a.push(1);
                                    i.enc(&mut a);
                                }
                            }
                        }
                        a
                    }));
                    let r3 = std::panic::catch_unwind(std::panic::AssertUnwindSafe(|| {
                        let mut a = Vec::new();
                        let mut qm = w.query_mut::<Q>();
                        let mut v = qm.view();
                        for r in v.get_many_mut(tri) {
                            match r {
                                None => a.push(0),
                                Some(i) => {
                                    a.push(1);
                                    i.enc(&mut a);
                                }
                            }
                        }
                        a
                    }));
                    if self.arg >= 1000 && (r.is_ok() || r2.is_ok() || r3.is_ok()) {
                        flags.push("C05: a list of three handles naming one entity twice was accepted: two unique references to the same components".to_string());
                    }
                    // the prepared view answers like the plain one, item by item in argument order
                    let pq = self
                        .prepared
                        .entry(self.qidx)
                        .or_insert_with(|| Box::new(PreparedQuery::<Q>::new()))
                        .downcast_mut::<PreparedQuery<Q>>()
                        .unwrap();
                    let r4 = std::panic::catch_unwind(std::panic::AssertUnwindSafe(|| {
                        let mut a = Vec::new();
                        let mut v = pq.view_mut(w);
                        for r in v.get_many_mut(tri) {
                            match r {
                                None => a.push(0),
                                Some(i) => {
                                    a.push(1);
                                    i.enc(&mut a);
                                }
                            }
                        }
                        a
                    }));
                    match (&r2, &r4) {
                        (Ok(b), Ok(d)) if b == d => {}
                        (Err(_), Err(_)) => {}
                        _ => flags.push("C17/C08: PreparedView::get_many_mut and View::get_many_mut disagree on three handles".to_string()),
                    }
                    match (r, r2, r3) {
                        (Ok(a), Ok(b), Ok(c)) => {
                            if b != c {
                                flags.push("C08: view_mut().get_many_mut and query_mut().view().get_many_mut disagree".to_string());
                            }
                            o.push(1);
                            o.extend(a);
                            o.extend(b);
                        }
                        (Err(_), Err(_), Err(_)) => o.push(3),
                        _ => {
                            flags.push("C08: query_many_mut and View::get_many_mut disagree about rejecting the handle list".to_string());
                            o.push(4);
                        }
                    }
                }
            }
            11 => {
                // five handles in a scrambled order (assert_distinct sorts a copy when there are more than three)
                let hs = self.handles;
                if hs.len() < 5 {
                    o.push(7);
                } else {
                    let k = (self.arg as usize) % hs.len();
                    let rot: Vec<Entity> = hs[k..].iter().chain(hs[..k].iter()).copied().collect();
                    let five = if self.arg >= 1000 { [rot[3], rot[1], rot[4], rot[0], rot[3]] } else { [rot[3], rot[1], rot[4], rot[0], rot[2]] };
                    let flags = &mut *self.flags;
                    let r = std::panic::catch_unwind(std::panic::AssertUnwindSafe(|| {
                        let mut a = Vec::new();
                        for r in w.query_many_mut::<Q, 5>(five) {
                            match r {
                                Err(QueryOneError::NoSuchEntity) => a.push(0),
                                Err(QueryOneError::Unsatisfied) => a.push(1),
                                Ok(i) => {
                                    a.push(2);
                                    i.enc(&mut a);
                                }
                            }
                        }
                        a
                    }));
                    let r2 = std::panic::catch_unwind(std::panic::AssertUnwindSafe(|| {
                        let mut a = Vec::new();
                        let mut v = w.view_mut::<Q>();
                        for r in v.get_many_mut(five) {
                            match r {
                                None => a.push(0),
                                Some(i) => {
                                    a.push(1);
                                    i.enc(&mut a);
                                }
                            }
                        }
                        a
                    }));
                    let r3 = std::panic::catch_unwind(std::panic::AssertUnwindSafe(|| {
                        let mut a = Vec::new();
                        let mut vb = w.view::<Q>();
                        for r in vb.get_many_mut(five) {
                            match r {
                                None => a.push(0),
                                Some(i) => {
                                    a.push(1);
                                    i.enc(&mut a);
                                }
                            }
                        }
                        a
                    }));
                    if self.arg >= 1000 && (r.is_ok() || r2.is_ok() || r3.is_ok()) {
                        flags.push("C05: a list of five handles naming one entity twice was accepted: two unique references to the same components".to_string());
                    }
                    match (r, r2, r3) {
                        (Ok(a), Ok(b), Ok(c)) => {
                            if b != c {
                                flags.push("C08: View::get_many_mut and ViewBorrow::get_many_mut disagree".to_string());
                            }
                            o.push(1);
                            o.extend(a);
                            o.extend(b);
                        }
                        (Err(_), Err(_), Err(_)) => o.push(3),
                        _ => {
                            flags.push("C08: query_many_mut / View::get_many_mut / ViewBorrow::get_many_mut disagree about rejecting the handle list".to_string());
                            o.push(4);
                        }
                    }
                }
            }
            10 => {
                let bs = self.arg as u32;
                let mut batches = Vec::new();
                for batch in w.query_mut::<Q>().into_iter_batched(bs) {
                    let mut n = 0u64;
                    let mut body = Vec::new();
                    for (e, i) in batch {
                        enc_pair(e, &i, &mut body);
                        n += 1;
                    }
                    batches.push((n, body));
                    if batches.len() > 100_000 {
                        self.flags.push("C08: batched iteration does not terminate".to_string());
                        break;
                    }
                }
                o.push(batches.len() as u64);
                for (n, body) in batches {
                    o.push(n);
                    o.extend(body);
                }
            }
            _ => {
                // satisfies for every handle, Archetype::access / satisfies for every archetype
                for h in self.handles {
                    match w.satisfies::<Q>(*h) {
                        Err(_) => o.push(0),
                        Ok(b) => o.push(1 + b as u64),
                    }
                    if let Ok(er) = w.entity(*h) {
                        if Ok(er.satisfies::<Q>()) != w.satisfies::<Q>(*h) {
                            self.flags.push(format!("C08: EntityRef::satisfies disagrees with World::satisfies on {:?}", h));
                        }
                    }
                }
                for a in w.archetypes() {
                    let acc = match a.access::<Q>() {
                        None => 0,
                        Some(Access::Iterate) => 1,
                        Some(Access::Read) => 2,
                        Some(Access::Write) => 3,
                    };
                    o.push(acc);
                    if a.satisfies::<Q>() != (acc != 0) {
                        self.flags.push("C08: Archetype::satisfies disagrees with access".to_string());
                    }
                }
            }
        }
        o
    }
}

pub fn run_query_op(
    world: &mut World,
    qidx: u64,
    path: u64,
    arg: u64,
    ast: &[u64],
    handles: &[Entity],
    prepared: &mut HashMap<u64, Box<dyn Any>>,
    out: &mut Out,
) -> Vec<u64> {
    let mut flags = Vec::new();
    let r = crate::gen_queries::dispatch_query(qidx, PathV { world, path, arg, handles, prepared, qidx, ast, flags: &mut flags });
    for f in flags {
        out.flag(f);
    }
    r.unwrap_or_else(|| vec![98])
}
